#!/usr/bin/env python3
"""Regenerates MANIFEST.json from checkconf.py (claimed checks) and the not-applicable list."""
import json, os, sys
sys.path.insert(0, os.path.dirname(os.path.abspath(__file__)))
from checkconf import CONF, MANIFEST_TEXT, NOT_APPLICABLE

checks = []
for pid in sorted(CONF):
    c = CONF[pid]
    mt = MANIFEST_TEXT[pid]
    checks.append({
        "property_id": pid,
        "quick_cmd": "./check %s quick" % pid,
        "thorough_cmd": "./check %s thorough" % pid,
        "evidence_file": "/verif/evidence/%s.json" % pid,
        "replay_cmd_template": "./check %s --replay {path}" % pid,
        "engine": "harness",
        "level_claimed": {"category": c.get("level", "exploration"), "text": mt["level"], "design_ref": mt["ref"]},
        "level_note": mt["note"],
        "technique": mt["technique"],
    })
m = {
    "version": 1,
    "setup_cmd": "./check build",
    "hooks": {
        "guard": "verif",
        "enable": "go build tag: the harness is compiled with `go test -c -tags verif` against /repo through a replace directive",
        "baseline_off_cmd": "for m in . ./api; do (cd /repo/$m && gw=$(go env GOWORK 2>/dev/null); if [ -z \"$gw\" ] || [ \"$gw\" = off ]; then MF=-mod=mod; else MF=; fi; go test $MF -json -vet=off -count=1 -timeout 25m ./...); done",
        "source_commits": ["d460682"],
        "fix_commits": ["b98118a", "9e9e389", "110c8a7", "0dca6d3", "785ee41", "6782f1e", "487337a", "ac8aeff"],
        "add_only": True,
    },
    "engines": [{
        "name": "harness", "path": "/verif/harness",
        "serves_properties": sorted(CONF),
        "kind_free_text": "Go module: real cosmos-sdk BaseApp running the real module + model ledger + reference model/codec/verifier; rapid v1.3.0 generators, bounded-exhaustive enumerations and native go fuzz targets; driver ./check",
    }],
    "checks": checks,
    "not_applicable": NOT_APPLICABLE,
    "notes": "All checks: property-based testing / fuzzing with explicit oracles (see DESIGN.md). exit 2 = inconclusive, never a violation.",
}
json.dump(m, open(os.path.join(os.path.dirname(os.path.abspath(__file__)), "MANIFEST.json"), "w"), indent=1)
print("claimed:", [c["property_id"] for c in checks], "n/a:", [x["property_id"] for x in NOT_APPLICABLE])
