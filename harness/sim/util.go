// Package sim holds the shared engine of the property checks: account and key
// universes, genesis specifications, the reference model of the module, the
// World that executes operations against the real chain and records what
// happened, and the rapid generators.
package sim

import (
	"bytes"
	"encoding/hex"
	"encoding/json"
	"math/big"

	sdk "github.com/cosmos/cosmos-sdk/types"
	authtypes "github.com/cosmos/cosmos-sdk/x/auth/types"

	"verif/harness/attest"
	"verif/harness/chain"
)

// NAccts is the size of the account universe.
const NAccts = 7

// AcctBytes returns the address bytes of account i (20 bytes, unless OddAccounts is on).
func AcctBytes(i int) []byte {
	base := attest.Keccak([]byte{'v', 'e', 'r', 'i', 'f', '-', 'a', 'c', 'c', 't', byte(i)})
	if OddAccounts && i < 4 {
		// a family of accounts that agree in their first 20 bytes: X, X||Y1, X||Y2 (32 bytes) and X||00 (21 bytes)
		x := attest.Keccak([]byte("verif-acct-family"))[:20]
		switch i {
		case 0:
			return x
		case 1:
			return append(append([]byte{}, x...), base[:12]...)
		case 2:
			return append(append([]byte{}, x...), attest.Keccak(base)[:12]...)
		default:
			return append(append([]byte{}, x...), 0)
		}
	}
	return base[:20]
}

// OddAccounts switches accounts 0..3 to a family of addresses of different lengths that share their first 20 bytes
// (process-wide; set by the checks that enumerate over it before anything else runs).
var OddAccounts bool

// Acct returns the canonical bech32 string of account i.
func Acct(i int) string {
	chain.SetupSDK()
	return sdk.AccAddress(AcctBytes(i)).String()
}

// ModuleAddr is the cctp module account (computed with the SDK's rule, not
// taken from the module under test).
func ModuleAddrBytes() []byte { return authtypes.NewModuleAddress("cctp") }
func ModuleAddr() string {
	chain.SetupSDK()
	return sdk.AccAddress(ModuleAddrBytes()).String()
}

// Pad32 left-pads b with zeros to 32 bytes.
func Pad32(b []byte) []byte {
	if len(b) > 32 {
		b = b[len(b)-32:]
	}
	out := make([]byte, 32)
	copy(out[32-len(b):], b)
	return out
}

func IsZero(b []byte) bool {
	for _, c := range b {
		if c != 0 {
			return false
		}
	}
	return true
}

func Hex(b []byte) string { return hex.EncodeToString(b) }

func UnHex(s string) []byte {
	b, err := hex.DecodeString(s)
	if err != nil {
		panic(err)
	}
	return b
}

func Big(s string) *big.Int {
	v, ok := new(big.Int).SetString(s, 10)
	if !ok {
		panic("bad big " + s)
	}
	return v
}

var (
	Two64  = new(big.Int).Lsh(big.NewInt(1), 64)
	Two128 = new(big.Int).Lsh(big.NewInt(1), 128)
	Two255 = new(big.Int).Lsh(big.NewInt(1), 255)
	Two256 = new(big.Int).Lsh(big.NewInt(1), 256)
	Max256 = new(big.Int).Sub(Two256, big.NewInt(1))
)

// AcctOfBytes returns the universe index of a 20-byte address or -1.
func AcctOfBytes(b []byte) int {
	for i := 0; i < NAccts; i++ {
		if bytes.Equal(AcctBytes(i), b) {
			return i
		}
	}
	return -1
}

// StripLimitAmounts rewrites a module genesis document so that burn-limit entries for which drop(denom, amount) holds
// carry no amount field at all ({"denom": "..."}): what a hand-written file looks like when the amount was forgotten.
// Validation accepts such an entry; the limit stored for it is the zero amount.
func StripLimitAmounts(raw []byte, drop func(denom, amount string) bool) []byte {
	var doc map[string]json.RawMessage
	if json.Unmarshal(raw, &doc) != nil {
		return raw
	}
	var list []map[string]json.RawMessage
	if json.Unmarshal(doc["per_message_burn_limit_list"], &list) != nil {
		return raw
	}
	changed := false
	for _, e := range list {
		var d, a string
		_ = json.Unmarshal(e["denom"], &d)
		_ = json.Unmarshal(e["amount"], &a)
		if _, ok := e["amount"]; ok && drop(d, a) {
			delete(e, "amount")
			changed = true
		}
	}
	if !changed {
		return raw
	}
	doc["per_message_burn_limit_list"], _ = json.Marshal(list)
	out, err := json.Marshal(doc)
	if err != nil {
		return raw
	}
	return out
}
