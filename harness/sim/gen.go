package sim

import (
	"strconv"
	"bytes"
	"fmt"
	"math/big"
	"sort"
	"strings"

	sdkmath "cosmossdk.io/math"
	sdk "github.com/cosmos/cosmos-sdk/types"
	"github.com/cosmos/cosmos-sdk/types/bech32"
	"pgregory.net/rapid"

	"github.com/circlefin/noble-cctp/x/cctp/types"

	"verif/harness/attest"
	"verif/harness/chain"
	"verif/harness/refcodec"
)

// G bundles the rapid source with the live world; generation is interleaved with
// execution so that choices can refer to what exists (a registered messenger, an
// emitted message, the current role holder). Every random choice goes through T.
type G struct {
	T *rapid.T
	W *World
	// NoForge: never have the attesters sign a source-domain-4 message this chain
	// did not emit (assumption A3; used by the conservation properties).
	NoForge bool
}

// Uniform draws an integer in [lo, hi] with (practically) uniform probability. rapid's own integer
// generators are deliberately biased towards small values and range ends, which is what one wants for
// lengths and amounts but not for "which alternative" choices: with them a 25% branch is taken far
// less often than that and late alternatives of a list are starved. 20 fair bits, reduced modulo the
// range size (for ranges up to 2^14 the modulo bias is below 2%).
func Uniform(t *rapid.T, label string, lo, hi int) int {
	if hi <= lo {
		return lo
	}
	n := uint64(hi - lo + 1)
	bits := rapid.SliceOfN(rapid.Bool(), 20, 20).Draw(t, label)
	var v uint64
	for _, b := range bits {
		v <<= 1
		if b {
			v |= 1
		}
	}
	return lo + int(v%n)
}

func (g *G) Int(label string, lo, hi int) int { return Uniform(g.T, label, lo, hi) }
func (g *G) Bool(label string) bool           { return rapid.Bool().Draw(g.T, label) }
func (g *G) Pct(label string, p int) bool     { return Uniform(g.T, label, 0, 99) < p }
func (g *G) Bytes(label string, n int) []byte {
	return rapid.SliceOfN(rapid.Byte(), n, n).Draw(g.T, label)
}
func Pick[T any](g *G, label string, xs []T) T {
	return xs[Uniform(g.T, label, 0, len(xs)-1)]
}

// NKeys is the size of the attester key universe used by history generators.
const NKeys = 8

var keyByPub = map[string]int{}

func init() {
	for i := 0; i < 32; i++ {
		keyByPub[string(attest.K(i).Pub)] = i
	}
}

// KeyOfSpelling maps an attester string to its universe key index or -1.
func KeyOfSpelling(s string) int {
	bz, ok := attest.ParseSpelling(s)
	if !ok {
		return -1
	}
	if i, ok := keyByPub[string(bz)]; ok {
		return i
	}
	return -1
}

// Domains is the hostile domain universe.
var Domains = []uint32{0, 1, 2, 3, 4, 5, 47, 255, 256, 65536, 1 << 24, 1<<32 - 1}

// Nonces is the hostile nonce universe.
var Nonces = []uint64{0, 1, 2, 47, 255, 256, 1<<32 - 1, 1 << 32, 1 << 63, 1<<64 - 1}

func (g *G) Domain(label string) uint32 {
	if g.Pct(label+"/rnd", 10) {
		return rapid.Uint32().Draw(g.T, label)
	}
	return Pick(g, label, Domains)
}

func (g *G) Acct(label string) int { return g.Int(label, 0, NAccts-1) }

// HolderOr returns the holder of role slot with probability p%, else any account.
func (g *G) HolderOr(label string, slot int, p int) string {
	if g.Pct(label+"/holder", p) {
		return g.W.Model.Roles[slot]
	}
	return Acct(g.Acct(label))
}

// B32 draws a hostile 32-byte value.
func (g *G) B32(label string, by string) []byte {
	switch g.Int(label+"/k", 0, 7) {
	case 0:
		return make([]byte, 32)
	case 1:
		b := make([]byte, 32)
		b[31] = 1
		return b
	case 2:
		b := g.Bytes(label, 32)
		b[0] |= 0x80
		return b
	case 3:
		return bytes.Repeat([]byte{0xff}, 32)
	case 4:
		return Pad32(ModuleAddrBytes())
	case 5:
		if a := fromBytes(by); a != nil {
			return Pad32(a)
		}
		return Pad32(AcctBytes(0))
	case 6:
		return Pad32(AcctBytes(g.Acct(label + "/a")))
	default:
		b := g.Bytes(label, 32)
		if IsZero(b) {
			b[5] = 9
		}
		return b
	}
}

// NonZero32 draws a 32-byte value that is not all zero.
func (g *G) NonZero32(label string, by string) []byte {
	for i := 0; ; i++ {
		b := g.B32(fmt.Sprintf("%s#%d", label, i), by)
		if !IsZero(b) {
			return b
		}
	}
}

// Body draws a message body with lengths biased to the interesting boundaries.
func (g *G) Body(label string) []byte {
	max := g.W.Model.MaxBody
	var n int
	switch g.Int(label+"/k", 0, 9) {
	case 0:
		n = 0
	case 1:
		n = 1
	case 2:
		n = 131 + g.Int(label+"/d", 0, 2)
	case 3:
		n = 115 + g.Int(label+"/d", 0, 2)
	case 4, 5:
		if max <= 4096 {
			d := g.Int(label+"/d", -1, 1)
			if int(max)+d >= 0 {
				n = int(max) + d
			}
		} else {
			n = g.Int(label+"/n", 0, 64)
		}
	default:
		n = g.Int(label+"/n", 0, 300)
	}
	return g.Bytes(label, n)
}

// Amount draws a deposit/burn amount (decimal string as big.Int).
func (g *G) Amount(label string, around *big.Int) *big.Int {
	if around != nil && g.Pct(label+"/lim", 50) {
		v := new(big.Int).Add(around, big.NewInt(int64(g.Int(label+"/d", -1, 1))))
		if v.BitLen() > 256 {
			return new(big.Int).Set(Max256)
		}
		return v
	}
	switch g.Int(label+"/k", 0, 11) {
	case 0:
		return big.NewInt(0)
	case 1:
		switch g.Int(label+"/neg", 0, 3) {
		case 0:
			return new(big.Int).Neg(Max256) // -(2^256-1): any difference with a positive amount leaves 256 bits
		case 1:
			return new(big.Int).Neg(Two255)
		}
		return big.NewInt(-1)
	case 2:
		return big.NewInt(1)
	case 3:
		return new(big.Int).Sub(Two64, big.NewInt(1))
	case 4:
		return new(big.Int).Set(Two64)
	case 5:
		return new(big.Int).Add(Two64, big.NewInt(1))
	case 6:
		return new(big.Int).Set(Two128)
	case 7:
		return new(big.Int).Set(Two255)
	case 8:
		return new(big.Int).Set(Max256)
	default:
		return big.NewInt(int64(g.Int(label+"/n", 1, 1000000)))
	}
}

// PosAmount draws a positive amount below 2^256.
func (g *G) PosAmount(label string) *big.Int {
	for i := 0; ; i++ {
		a := g.Amount(fmt.Sprintf("%s#%d", label, i), nil)
		if a.Sign() > 0 {
			return a
		}
	}
}

// Denom draws a burn-token / local-token string.
func (g *G) Denom(label string) string {
	d := g.W.Model.L.Denom
	switch g.Int(label+"/k", 0, 11) {
	case 0:
		return strings.ToUpper(d)
	case 1:
		return strings.ToUpper(d[:1]) + d[1:]
	case 2:
		return strings.Replace(d, "s", "ſ", 1) // U+017F folds to 's'
	case 3:
		return strings.Replace(d, "k", "K", 1)
	case 4:
		return "uother"
	case 5:
		return ""
	case 6:
		return "1bad"
	default:
		return d
	}
}

// ---- attestations -----------------------------------------------------------------------

// EnabledKeys returns the universe keys behind the model's attester entries,
// distinct, sorted by address; unknown reports entries that are not universe keys.
func (w *World) EnabledKeys() (ks []*attest.Key) {
	seen := map[int]bool{}
	for _, s := range w.Model.AttesterList() {
		if i := KeyOfSpelling(s); i >= 0 && !seen[i] {
			seen[i] = true
			ks = append(ks, attest.K(i))
		}
	}
	attest.SortByAddr(ks)
	return ks
}

// DisabledKeys returns the universe keys that a successful disable-attester of this history named
// (or that the genesis listed) and that no enabled entry spells any more.
func (w *World) DisabledKeys() (ks []*attest.Key) {
	enabled := map[int]bool{}
	for _, k := range w.EnabledKeys() {
		enabled[k.Idx] = true
	}
	seen := map[int]bool{}
	add := func(sp string) {
		if i := KeyOfSpelling(sp); i >= 0 && !enabled[i] && !seen[i] {
			seen[i] = true
			ks = append(ks, attest.K(i))
		}
	}
	if w.Gen != nil {
		for _, a := range w.Gen.Attesters {
			add(a)
		}
	}
	for _, st := range w.Steps {
		if !st.OK() {
			continue
		}
		for _, m := range st.Msgs {
			if d, ok := m.(*types.MsgDisableAttester); ok {
				add(d.Attester)
			}
		}
	}
	attest.SortByAddr(ks)
	return ks
}

// HonestAttestation signs message with the first threshold enabled keys (by
// address), or nil if the enabled universe keys cannot reach the threshold.
func (w *World) HonestAttestation(message []byte, st attest.SigStyle) []byte {
	ks := w.EnabledKeys()
	t := int(w.Model.Thr)
	if t == 0 || len(ks) < t {
		return nil
	}
	return attest.Attest(message, ks[:t], st)
}

// HonestAttestationPick signs with a drawn t-subset of the enabled keys.
func (g *G) HonestAttestation(label string, message []byte) []byte {
	ks := g.W.EnabledKeys()
	t := int(g.W.Model.Thr)
	if t == 0 || len(ks) < t {
		return nil
	}
	idx := rapid.Permutation(seq(len(ks))).Draw(g.T, label+"/subset")[:t]
	var sub []*attest.Key
	for _, i := range idx {
		sub = append(sub, ks[i])
	}
	st := attest.SigStyle{Legacy: g.Pct(label+"/legacy", 25), Twin: g.Pct(label+"/twin", 10)}
	return attest.Attest(message, sub, st)
}

func seq(n int) []int {
	out := make([]int, n)
	for i := range out {
		out[i] = i
	}
	return out
}

// BadAttestation draws one of the tamper classes for message.
func (g *G) BadAttestation(label string, message []byte) ([]byte, string) {
	good := g.HonestAttestation(label+"/base", message)
	ks := g.W.EnabledKeys()
	t := int(g.W.Model.Thr)
	if t > 40 || t < 0 {
		t = 40 // hostile genesis thresholds: keep generated attestations small
	}
	switch k := g.Int(label+"/class", 0, 12); {
	case k == 11 && good != nil && t >= 1:
		// a recovery byte outside {0,1,27,28}: the true recovery id plus an offset (a lenient or repeated
		// normalisation - subtract 27 while >= 27, look at the parity only - would arrive at the right id)
		b := append([]byte{}, good...)
		i := g.Int(label+"/vslot", 0, t-1)*65 + 64
		rec := b[i]
		if rec >= 27 {
			rec -= 27
		}
		b[i] = rec + Pick(g, label+"/voff", []byte{54, 54, 29, 30, 2, 26, 35, 81, 128, 254})
		return b, "odd-recovery-byte"
	case k == 12 && good != nil && t >= 1 && len(ks) >= t:
		// the quorum signs a value derived from the message that is not its Keccak-256 digest
		kind := Pick(g, label+"/derived", attest.DerivedKinds)
		sub := append([]*attest.Key{}, ks[:t]...)
		attest.SortByAddr(sub)
		var b []byte
		for _, key := range sub {
			b = append(b, attest.SignDigest(attest.DerivedDigest(kind, message), key, attest.SigStyle{})...)
		}
		return b, "derived-digest"
	case k == 9 && good != nil && t >= 1 && len(ks) >= t:
		// a formerly enabled, since disabled key in one slot (else an unknown key)
		x := attest.K(20 + g.Int(label+"/u", 0, 5))
		if ds := g.W.DisabledKeys(); len(ds) > 0 {
			x = Pick(g, label+"/dk", ds)
		}
		signers := append([]*attest.Key{x}, ks[:t-1]...)
		return attest.Attest(message, signers, attest.SigStyle{}), "disabled-signer"
	case k == 10 && good != nil && t >= 2:
		// one signer twice: the second signature is the high-s twin of the first (other bytes, same signer)
		b := append([]byte{}, good...)
		copy(b[65:130], attest.Sign(message, ks[0], attest.SigStyle{Twin: true}))
		if g.Bool(label + "/twinfirst") {
			copy(b[:65], b[65:130])
			copy(b[65:130], good[:65])
		}
		return b, "duplicate-twin"
	case k == 0 || good == nil:
		return g.Bytes(label+"/raw", 65*maxInt(t, 1)), "random-bytes"
	case k == 1:
		return good[:len(good)-1], "truncated"
	case k == 2:
		return append(append([]byte{}, good...), 0), "padded"
	case k == 3:
		// signed over other bytes
		other := append(append([]byte{}, message...), 1)
		return attest.Attest(other, ks[:t], attest.SigStyle{}), "other-bytes"
	case k == 4:
		// unknown signer in the last slot
		b := append([]byte{}, good...)
		copy(b[len(b)-65:], attest.Sign(message, attest.K(20+g.Int(label+"/u", 0, 5)), attest.SigStyle{}))
		return b, "unknown-signer"
	case k == 5 && t >= 2:
		// reversed order
		var out []byte
		for i := t - 1; i >= 0; i-- {
			out = append(out, good[i*65:i*65+65]...)
		}
		return out, "reversed"
	case k == 6 && t >= 2:
		// duplicate signer: first signature twice (second as its high-s twin)
		b := append([]byte{}, good...)
		sig := append([]byte{}, good[:65]...)
		copy(b[65:130], sig)
		return b, "duplicate"
	case k == 7:
		return append(append([]byte{}, good...), good[:65]...), "extra-signature"
	default:
		b := append([]byte{}, good...)
		b[g.Int(label+"/pos", 0, len(b)-2)] ^= 0x40
		return b, "bitflip"
	}
}

func maxInt(a, b int) int {
	if a > b {
		return a
	}
	return b
}

// ---- inbound messages ---------------------------------------------------------------------

// Inbound describes how a generated inbound message was built (labels only; the
// oracles recompute everything from the bytes).
type Inbound struct {
	Msg      []byte
	ToModule bool
	Broken   []string
}

// InboundOpts steers the inbound generator.
type InboundOpts struct {
	ToModule  *bool
	Break     []string // conditions to falsify: P3 P4 P5 P6 P7 M2 M3 M4 M5 M6z (amount 0)
	Src       *uint32
	Nonce     *uint64
	Submitter string
}

func (g *G) modelMsgrDomains() []uint32 {
	var ds []uint32
	for d := range g.W.Model.Msgrs {
		ds = append(ds, d)
	}
	sort.Slice(ds, func(i, j int) bool { return ds[i] < ds[j] })
	return ds
}

// DomainsWithMessenger lists the domains that have a registered messenger (sorted).
func (g *G) DomainsWithMessenger() []uint32 { return g.modelMsgrDomains() }

func (g *G) pairsOf(d uint32) []PairEntry {
	var ps []PairEntry
	for _, p := range g.W.Model.Pairs {
		if p.Domain == d {
			ps = append(ps, p)
		}
	}
	sort.Slice(ps, func(i, j int) bool { return bytes.Compare(ps[i].Token, ps[j].Token) < 0 })
	return ps
}

func has(xs []string, s string) bool {
	for _, x := range xs {
		if x == s {
			return true
		}
	}
	return false
}

// FreshNonce draws a nonce for domain d that the model does not list as used.
func (g *G) FreshNonce(label string, d uint32) uint64 {
	// (domain, nonce) pairs whose stored form is the all-default value matter more than their share of the space
	if !g.W.Model.Used[UsedSpec{d, 0}] && g.Pct(label+"/zero", 8) {
		return 0
	}
	for i := 0; ; i++ {
		var n uint64
		if g.Pct(fmt.Sprintf("%s/h#%d", label, i), 50) {
			n = Pick(g, fmt.Sprintf("%s/hn#%d", label, i), Nonces)
		} else {
			n = rapid.Uint64().Draw(g.T, fmt.Sprintf("%s/n#%d", label, i))
		}
		if !g.W.Model.Used[UsedSpec{d, n}] {
			return n
		}
	}
}

// Inbound builds an inbound (source != 4 unless asked) message for the live configuration.
func (g *G) Inbound(label string, o InboundOpts) Inbound {
	m := g.W.Model
	toModule := g.Pct(label+"/mod", 60)
	if o.ToModule != nil {
		toModule = *o.ToModule
	}
	var src uint32
	ds := g.modelMsgrDomains()
	switch {
	case o.Src != nil:
		src = *o.Src
	case len(ds) > 0 && g.Pct(label+"/known", 85):
		src = Pick(g, label+"/src", ds)
	default:
		src = g.Domain(label + "/src")
	}
	var nonce uint64
	ambiguous := false
	if o.Nonce == nil && o.Src == nil && !has(o.Break, "P6") && len(m.Used) > 0 && g.Pct(label+"/ambiguous", 4) {
		// a pair whose decimal digits, written one after the other, read the same as those of a used pair
		// ((1, 23) and (12, 3)): any key or de-duplication built by plain concatenation confuses the two
		var us []UsedSpec
		for u := range m.Used {
			us = append(us, u)
		}
		sort.Slice(us, func(i, j int) bool {
			if us[i].Domain != us[j].Domain {
				return us[i].Domain < us[j].Domain
			}
			return us[i].Nonce < us[j].Nonce
		})
		u := Pick(g, label+"/ambof", us)
		ds, ns := fmt.Sprint(u.Domain), fmt.Sprint(u.Nonce)
		s := ds + ns
		var cands []UsedSpec
		for k := 1; k < len(s); k++ {
			if k == len(ds) {
				continue
			}
			d2, err1 := strconv.ParseUint(s[:k], 10, 32)
			n2, err2 := strconv.ParseUint(s[k:], 10, 64)
			if err1 == nil && err2 == nil && fmt.Sprint(d2)+fmt.Sprint(n2) == s && !m.Used[UsedSpec{uint32(d2), n2}] {
				cands = append(cands, UsedSpec{uint32(d2), n2})
			}
		}
		if len(cands) > 0 {
			c := Pick(g, label+"/ambto", cands)
			src, nonce, ambiguous = c.Domain, c.Nonce, true
			if _, ok := m.Msgrs[src]; !ok && o.ToModule == nil {
				toModule = false
			}
		}
	}
	if ambiguous {
		// src and nonce are set
	} else if o.Nonce != nil {
		nonce = *o.Nonce
	} else if has(o.Break, "P6") && len(m.Used) > 0 {
		var us []UsedSpec
		for u := range m.Used {
			us = append(us, u)
		}
		sort.Slice(us, func(i, j int) bool {
			if us[i].Domain != us[j].Domain {
				return us[i].Domain < us[j].Domain
			}
			return us[i].Nonce < us[j].Nonce
		})
		u := Pick(g, label+"/used", us)
		src, nonce = u.Domain, u.Nonce
	} else {
		nonce = g.FreshNonce(label+"/nonce", src)
	}
	msg := &refcodec.Message{Version: 0, Source: src, Dest: 4, Nonce: nonce}
	// sender
	if ms, ok := m.Msgrs[src]; ok && len(ms) == 32 && !has(o.Break, "M4") {
		msg.Sender = append([]byte{}, ms...)
	} else {
		msg.Sender = g.NonZero32(label+"/sender", o.Submitter)
	}
	if has(o.Break, "M4") {
		if ms, ok := m.Msgrs[src]; ok && bytes.Equal(ms, msg.Sender) {
			msg.Sender[31] ^= 1
		}
	}
	// caller
	switch k := g.Int(label+"/caller", 0, 9); {
	case has(o.Break, "P7"):
		switch g.Int(label+"/ck", 0, 3) {
		case 0:
			// non-zero only in the 12 high bytes: names the account with 20 zero bytes, not the submitter
			msg.Caller = make([]byte, 32)
			msg.Caller[g.Int(label+"/hb", 0, 11)] = byte(g.Int(label+"/hv", 1, 255))
		case 1:
			for {
				msg.Caller = g.NonZero32(label+"/crnd", "")
				if !bytes.Equal(msg.Caller[12:], fromBytes(o.Submitter)) {
					break
				}
			}
		default:
			other := (AcctOfBytes(fromBytes(o.Submitter)) + 1 + g.Int(label+"/co", 0, NAccts-2)) % NAccts
			msg.Caller = Pad32(AcctBytes(other))
		}
	case k <= 5:
		msg.Caller = make([]byte, 32)
	default:
		msg.Caller = Pad32(fromBytes(o.Submitter))
	}
	if has(o.Break, "P4") {
		msg.Dest = Pick(g, label+"/dest", []uint32{0, 3, 5, 1<<32 - 1})
	}
	if has(o.Break, "P5") {
		msg.Version = Pick(g, label+"/ver", []uint32{1, 2, 1 << 31, 1<<32 - 1})
	}
	if toModule {
		msg.Recip = Pad32(ModuleAddrBytes())
		b := &refcodec.Burn{Version: 0}
		ps := g.pairsOf(src)
		if len(ps) > 0 && !has(o.Break, "M5") {
			b.BurnToken = Pad32(Pick(g, label+"/pair", ps).Token) // (a genesis pair may hold a shorter token)
			if len(b.BurnToken) != 32 {
				b.BurnToken = b.BurnToken[len(b.BurnToken)-32:]
			}
		} else {
			b.BurnToken = g.Bytes(label+"/tok", 32)
			if _, ok := m.Pairs[pairKey(src, b.BurnToken)]; ok {
				b.BurnToken[0] ^= 0x55
			}
		}
		switch g.Int(label+"/mr", 0, 5) {
		case 0:
			b.MintRecip = g.Bytes(label+"/mrb", 32) // high 12 bytes non-zero
		case 1:
			b.MintRecip = append([]byte{}, msg.Sender...)
		case 3:
			if g.Bool(label + "/mrmod") {
				b.MintRecip = Pad32(ModuleAddrBytes()) // the module mints to itself: still a mint request like any other
			} else {
				b.MintRecip = Pad32(AcctBytes(g.Acct(label + "/mra3")))
			}
		case 2:
			// an address written into the HIGH 20 bytes (right-padded): the recipient is still the low 20 bytes
			b.MintRecip = make([]byte, 32)
			copy(b.MintRecip, AcctBytes(g.Acct(label+"/mrr")))
		default:
			b.MintRecip = Pad32(AcctBytes(g.Acct(label + "/mra")))
		}
		b.Amount = g.PosAmount(label + "/amt")
		if m.L.Allow.Cmp(b.Amount) < 0 && g.Pct(label+"/fit", 80) && m.L.Allow.Sign() > 0 {
			// mostly stay within the minter allowance
			b.Amount = new(big.Int).Add(big.NewInt(1), new(big.Int).Mod(b.Amount, m.L.Allow))
		}
		if has(o.Break, "M6z") {
			b.Amount = new(big.Int)
		}
		if has(o.Break, "M3") {
			b.Version = Pick(g, label+"/bver", []uint32{1, 1<<32 - 1})
		}
		b.MsgSender = g.B32(label+"/msgsender", o.Submitter)
		if ms, ok := m.Msgrs[src]; ok && len(ms) == 32 && g.Pct(label+"/innermsgr", 15) {
			b.MsgSender = append([]byte{}, ms...) // the burn body names the registered messenger (the envelope may not)
		}
		body, err := refcodec.EncodeBurn(b)
		if err != nil {
			panic(err)
		}
		if has(o.Break, "M2") {
			switch g.Int(label+"/blen", 0, 5) {
			case 0:
				body = body[:131]
			case 1:
				body = append(body, 0)
			case 2:
				body = nil
			case 3:
				// a well-formed burn message followed by whole 32-byte words, or twice over
				body = append(body, make([]byte, Pick(g, label+"/bwords", []int{32, 64, 96, 132, 256, 1024}))...)
			case 4:
				body = append(body, g.Bytes(label+"/btail", g.Int(label+"/btl", 2, 70))...)
			default:
				body = body[:g.Int(label+"/bl", 1, 130)]
			}
		}
		msg.Body = body
		if o.ToModule == nil && g.Pct(label+"/nearmod", 6) {
			// everything a mint needs, but the recipient differs from the padded module address in its high 12 bytes
			msg.Recip[g.Int(label+"/nmb", 0, 11)] = byte(g.Int(label+"/nmv", 1, 255))
			toModule = false
		}
	} else {
		for {
			msg.Recip = g.B32(label+"/recip", o.Submitter)
			if !bytes.Equal(msg.Recip, Pad32(ModuleAddrBytes())) {
				break
			}
		}
		msg.Body = g.Body(label + "/body")
		if g.Pct(label+"/bigbody", 2) {
			// far larger than anything this chain would send: the size limit is the sender's, not the receiver's
			msg.Body = bytes.Repeat([]byte{0xb0, 0xd1}, Pick(g, label+"/bigl", []int{4096, 4097, 5000, 10000})+g.Int(label+"/bigx", 0, 1))
		}
	}
	bz, err := refcodec.EncodeMessage(msg)
	if err != nil {
		panic(err)
	}
	if has(o.Break, "P3") {
		bz = bz[:g.Int(label+"/trunc", 0, 115)]
	}
	return Inbound{Msg: bz, ToModule: toModule, Broken: o.Break}
}

// ---- op builders -----------------------------------------------------------------------------

func Int(v *big.Int) sdkmath.Int { return sdkmath.NewIntFromBigInt(v) }

func (g *G) SendOp(label string) *Op {
	by := Acct(g.Acct(label + "/by"))
	rc := g.B32(label+"/rc", by)
	if g.Pct(label+"/rclen", 5) {
		rc = rc[:g.Int(label+"/rcl", 0, 31)]
	}
	body := g.Body(label + "/body")
	if g.Pct(label+"/burnshaped", 20) {
		b := &refcodec.Burn{Version: 0, BurnToken: attest.Keccak([]byte(strings.ToLower(g.W.Model.L.Denom))), MintRecip: g.NonZero32(label+"/bmr", by),
			Amount: g.PosAmount(label + "/bamt"), MsgSender: Pad32(fromBytes(by))}
		body, _ = refcodec.EncodeBurn(b)
		if uint64(len(body)) > g.W.Model.MaxBody {
			body = g.Body(label + "/body2")
		}
		if ds := g.modelMsgrDomains(); len(ds) > 0 {
			d := Pick(g, label+"/bdom", ds)
			if ms := g.W.Model.Msgrs[d]; len(ms) == 32 && !IsZero(ms) {
				return TxOp("send", &types.MsgSendMessage{From: by, DestinationDomain: d, Recipient: ms, MessageBody: body})
			}
		}
	}
	if g.Bool(label + "/withcaller") {
		cl := g.B32(label+"/cl", by)
		if g.Pct(label+"/cllen", 8) {
			cl = append(cl, 7)[:Pick(g, label+"/cll", []int{0, 31, 33})]
		}
		return TxOp("sendc", &types.MsgSendMessageWithCaller{From: by, DestinationDomain: g.Domain(label + "/dom"), Recipient: rc, MessageBody: body, DestinationCaller: cl})
	}
	return TxOp("send", &types.MsgSendMessage{From: by, DestinationDomain: g.Domain(label + "/dom"), Recipient: rc, MessageBody: body})
}

// DepositOp draws a deposit that is mostly valid for the live configuration.
func (g *G) DepositOp(label string, validPct int) *Op {
	m := g.W.Model
	by := Acct(g.Acct(label + "/by"))
	valid := g.Pct(label+"/valid", validPct)
	var dom uint32
	ds := g.modelMsgrDomains()
	if len(ds) > 0 && (valid || g.Pct(label+"/kd", 80)) {
		dom = Pick(g, label+"/dom", ds)
	} else {
		dom = g.Domain(label + "/dom")
	}
	tok := m.L.Denom
	if !valid && g.Pct(label+"/tokv", 30) {
		tok = g.Denom(label + "/tok")
	} else if m.L.Fold && g.Pct(label+"/tokcase", 30) {
		tok = strings.ToUpper(tok)
	}
	lim := m.Limits[strings.ToLower(tok)]
	var amt *big.Int
	if valid {
		amt = g.PosAmount(label + "/amt")
		bal := m.L.bal(balKey(fromBytes(by), m.L.norm(tok)))
		if lim != nil && amt.Cmp(lim) > 0 && lim.Sign() > 0 {
			amt = new(big.Int).Add(big.NewInt(1), new(big.Int).Mod(amt, lim))
		}
		if bal.Sign() > 0 && amt.Cmp(bal) > 0 {
			amt = new(big.Int).Add(big.NewInt(1), new(big.Int).Mod(amt, bal))
		}
		if lim != nil && amt.Cmp(lim) > 0 && lim.Sign() > 0 {
			amt = new(big.Int).Set(lim)
		}
	} else {
		amt = g.Amount(label+"/amt", lim)
	}
	if valid && g.Pct(label+"/tokfold", 5) {
		// otherwise valid, but the burn token only case-folds to the minting denom (U+017F, U+212A)
		if t := strings.Replace(strings.Replace(tok, "s", "\u017f", 1), "k", "\u212a", 1); t != tok {
			tok = t
		}
	}
	var mr []byte
	if valid && g.Pct(label+"/mrlong", 4) {
		// otherwise valid, but the recipient has more than 32 bytes (its first 32 are a fine recipient)
		mr = append(g.NonZero32(label+"/mr", by), g.Bytes(label+"/mrx", Pick(g, label+"/mrxl", []int{1, 12, 32}))...)
		mr[len(mr)-1] |= 1
	} else if valid {
		mr = g.NonZero32(label+"/mr", by)
	} else {
		mr = g.B32(label+"/mr", by)
		if g.Pct(label+"/mrlen", 10) {
			mr = append(mr, 3)[:Pick(g, label+"/mrl", []int{0, 31, 33})]
		}
	}
	if g.Bool(label + "/withcaller") {
		var cl []byte
		if valid && g.Pct(label+"/cllong", 5) {
			// otherwise valid, but the caller is not 32 bytes long (a bare 20-byte address, 33 or 40 bytes)
			cl = append(g.NonZero32(label+"/cl", by), g.Bytes(label+"/clx", 8)...)
			cl = cl[:Pick(g, label+"/cllen2", []int{33, 40})]
			if g.Bool(label + "/clshort") {
				cl = cl[12:32]
			}
			cl[len(cl)-1] |= 1
		} else if valid {
			cl = g.NonZero32(label+"/cl", by)
		} else {
			cl = g.B32(label+"/cl", by)
			if g.Pct(label+"/cllen", 15) {
				cl = append(cl, 7)[:Pick(g, label+"/cll", []int{0, 31, 33})]
			}
		}
		return TxOp("depc", &types.MsgDepositForBurnWithCaller{From: by, Amount: Int(amt), DestinationDomain: dom, MintRecipient: mr, BurnToken: tok, DestinationCaller: cl})
	}
	return TxOp("dep", &types.MsgDepositForBurn{From: by, Amount: Int(amt), DestinationDomain: dom, MintRecipient: mr, BurnToken: tok})
}

// RecvOp draws a receive: mostly acceptable, with a drawn subset of conditions broken.
func (g *G) RecvOp(label string, brokenPct int) *Op {
	by := Acct(g.Acct(label + "/by"))
	var brk []string
	if g.Pct(label+"/broken", brokenPct) {
		all := []string{"P2", "P3", "P4", "P5", "P6", "P7", "M2", "M3", "M4", "M5", "M6z"}
		n := 1
		if g.Pct(label+"/multi", 30) {
			n = g.Int(label+"/nb", 2, 4)
		}
		perm := rapid.Permutation(all).Draw(g.T, label+"/which")
		brk = perm[:n]
	}
	in := g.Inbound(label, InboundOpts{Break: brk, Submitter: by})
	var att []byte
	cls := "honest"
	if has(brk, "P2") {
		att, cls = g.BadAttestation(label+"/att", in.Msg)
	} else {
		att = g.HonestAttestation(label+"/att", in.Msg)
		if att == nil {
			att = g.Bytes(label+"/noatt", 65)
			cls = "no-quorum"
		}
	}
	op := TxOp("recv", &types.MsgReceiveMessage{From: by, Message: in.Msg, Attestation: att})
	op.WithMeta("att", cls)
	if len(brk) > 0 {
		op.WithMeta("break", strings.Join(brk, ","))
	}
	if in.ToModule {
		op.WithMeta("module", "1")
	}
	return op
}

// AdminOp draws one of the 18 privileged transaction types.
var AdminTypes = []string{"UpdateOwner", "AcceptOwner", "UpdateAttesterManager", "UpdatePauser", "UpdateTokenController",
	"UpdateMaxMessageBodySize", "AddRemoteTokenMessenger", "RemoveRemoteTokenMessenger",
	"EnableAttester", "DisableAttester", "UpdateSignatureThreshold",
	"PauseBurningAndMinting", "UnpauseBurningAndMinting", "PauseSendingAndReceivingMessages", "UnpauseSendingAndReceivingMessages",
	"LinkTokenPair", "UnlinkTokenPair", "SetMaxBurnAmountPerMessage"}

// RoleSlotOf returns the role slot required by an admin type (4 = pending owner).
func RoleSlotOf(t string) int {
	switch t {
	case "AcceptOwner":
		return 4
	case "EnableAttester", "DisableAttester", "UpdateSignatureThreshold":
		return 1
	case "PauseBurningAndMinting", "UnpauseBurningAndMinting", "PauseSendingAndReceivingMessages", "UnpauseSendingAndReceivingMessages":
		return 2
	case "LinkTokenPair", "UnlinkTokenPair", "SetMaxBurnAmountPerMessage":
		return 3
	}
	return 0
}

// AddrString draws a new-role-holder string: mostly valid.
func (g *G) AddrString(label string) string {
	if p := g.W.Model.Pending; p != nil && g.Pct(label+"/nominee", 20) {
		return *p // the account whose ownership nomination is in flight gets (another) role
	}
	switch g.Int(label+"/k", 0, 11) {
	case 0:
		return strings.ToUpper(Acct(g.Acct(label + "/a"))) // upper-case bech32 is valid bech32
	case 1:
		s, _ := bech32Other(AcctBytes(g.Acct(label + "/a")))
		return s
	case 2:
		a := Acct(g.Acct(label + "/a"))
		return a[:len(a)-1] + string("qpzry9x8"[g.Int(label+"/c", 0, 7)]) // (almost surely) bad checksum
	case 3:
		// correctly checksummed bech32 with the right prefix whose payload is no address (empty, > 255 bytes)
		// or an unusual one (1 byte, 255 bytes); and the empty string
		n := Pick(g, label+"/plen", []int{-1, 0, 256, 300, 1, 255})
		if n < 0 {
			return ""
		}
		s, err := bech32.ConvertAndEncode(sdk.GetConfig().GetBech32AccountAddrPrefix(), bytes.Repeat([]byte{0x5a}, n))
		if err != nil {
			return ""
		}
		return s
	case 4:
		return Acct(0) + "x"
	case 5:
		return "nöble1qqqq"
	case 6:
		return sdk.AccAddress(g.Bytes(label+"/fresh", 20)).String()
	case 7:
		return sdk.AccAddress(g.Bytes(label+"/long", 32)).String()
	case 8:
		a := Acct(g.Acct(label + "/a"))
		return Pick(g, label+"/ws", []string{" " + a, a + " ", "\t" + a, a + "\n", " " + a + " ", a + "\x00"})
	case 9, 10:
		// the current holder of some role (two slots may point at one account)
		return g.W.Model.Roles[g.Int(label+"/slot", 0, 3)]
	default:
		return Acct(g.Acct(label + "/a"))
	}
}

func bech32Other(b []byte) (string, error) {
	return sdk.Bech32ifyAddressBytes("other", b)
}

// AttesterString draws an attester spelling (universe key mostly).
func (g *G) AttesterString(label string) string {
	m := g.W.Model
	if len(m.Atts) > 0 && g.Pct(label+"/existing", 35) {
		return Pick(g, label+"/ex", m.AttesterList())
	}
	if len(m.Atts) > 0 && g.Pct(label+"/ethaddr", 4) {
		// the 20-byte Ethereum-style address of an enabled key: names no entry
		if k := KeyOfSpelling(Pick(g, label+"/ea", m.AttesterList())); k >= 0 {
			return Pick(g, label+"/eap", []string{"0x", ""}) + Hex(attest.K(k).Addr)
		}
	}
	if len(m.Atts) > 0 && g.Pct(label+"/extend", 6) {
		// an entry whose string extends an enabled one (still accepted: the hex decoder keeps the decodable part)
		return Pick(g, label+"/xe", m.AttesterList()) + Pick(g, label+"/xs", []string{"/01", "/", "00", "/zz", "0"})
	}
	if len(m.Atts) > 0 && g.Pct(label+"/respell", 12) {
		// another spelling of a key that is enabled: an almost-equal registry entry
		if k := KeyOfSpelling(Pick(g, label+"/rx", m.AttesterList())); k >= 0 {
			return attest.K(k).Spelling(g.Int(label+"/rsp", 0, 5))
		}
	}
	switch g.Int(label+"/k", 0, 11) {
	case 0:
		return ""
	case 1:
		return "0x"
	case 2:
		return "zz"
	case 3:
		return "04abzz"
	case 4:
		return Hex(attest.K(g.Int(label+"/ck", 0, NKeys-1)).Pub[:33]) // not a 65-byte key
	default:
		return attest.K(g.Int(label+"/key", 0, NKeys-1)).Spelling(g.Int(label+"/sp", 0, 5))
	}
}

func (g *G) AdminOpOf(label, t string, by string) *Op {
	m := g.W.Model
	var msg sdk.Msg
	switch t {
	case "UpdateOwner":
		msg = &types.MsgUpdateOwner{From: by, NewOwner: g.AddrString(label + "/new")}
	case "AcceptOwner":
		msg = &types.MsgAcceptOwner{From: by}
	case "UpdateAttesterManager":
		msg = &types.MsgUpdateAttesterManager{From: by, NewAttesterManager: g.AddrString(label + "/new")}
	case "UpdatePauser":
		msg = &types.MsgUpdatePauser{From: by, NewPauser: g.AddrString(label + "/new")}
	case "UpdateTokenController":
		msg = &types.MsgUpdateTokenController{From: by, NewTokenController: g.AddrString(label + "/new")}
	case "UpdateMaxMessageBodySize":
		sz := Pick(g, label+"/sz", []uint64{0, 1, 131, 132, 133, 200, 256, 8000, 1 << 32, 1<<64 - 1})
		msg = &types.MsgUpdateMaxMessageBodySize{From: by, MessageSize: sz}
	case "AddRemoteTokenMessenger":
		a := g.B32(label+"/addr", by)
		if g.Pct(label+"/len", 10) {
			a = append(a, 1)[:Pick(g, label+"/l", []int{0, 20, 31, 33})]
		}
		msg = &types.MsgAddRemoteTokenMessenger{From: by, DomainId: g.Domain(label + "/dom"), Address: a}
	case "RemoveRemoteTokenMessenger":
		d := g.Domain(label + "/dom")
		if ds := g.modelMsgrDomains(); len(ds) > 0 && g.Pct(label+"/ex", 70) {
			d = Pick(g, label+"/exd", ds)
		}
		msg = &types.MsgRemoveRemoteTokenMessenger{From: by, DomainId: d}
	case "EnableAttester":
		msg = &types.MsgEnableAttester{From: by, Attester: g.AttesterString(label + "/att")}
	case "DisableAttester":
		msg = &types.MsgDisableAttester{From: by, Attester: g.AttesterString(label + "/att")}
	case "UpdateSignatureThreshold":
		n := len(m.Atts)
		amt := uint32(maxInt(0, n+g.Int(label+"/d", -n, 2)))
		if g.Pct(label+"/hostile", 12) {
			amt = Pick(g, label+"/hv", []uint32{1<<31 - 1, 1 << 31, 1<<31 + uint32(n), 1<<31 + uint32(n) + 1, 1<<32 - 1, 1 << 16, 256})
			if g.Bool(label + "/wrap65") {
				// 65*amount (the attestation length) wraps around 2^32 to a small value
				k := uint64(g.Int(label+"/wk", 1, 64))
				amt = uint32((k<<32+64)/65) + uint32(g.Int(label+"/wd", 0, n))
			}
		}
		msg = &types.MsgUpdateSignatureThreshold{From: by, Amount: amt}
	case "PauseBurningAndMinting":
		msg = &types.MsgPauseBurningAndMinting{From: by}
	case "UnpauseBurningAndMinting":
		msg = &types.MsgUnpauseBurningAndMinting{From: by}
	case "PauseSendingAndReceivingMessages":
		msg = &types.MsgPauseSendingAndReceivingMessages{From: by}
	case "UnpauseSendingAndReceivingMessages":
		msg = &types.MsgUnpauseSendingAndReceivingMessages{From: by}
	case "LinkTokenPair", "UnlinkTokenPair":
		var d uint32
		var tok []byte
		var ps []PairEntry
		for _, p := range m.Pairs {
			ps = append(ps, p)
		}
		sort.Slice(ps, func(i, j int) bool { return pairKey(ps[i].Domain, ps[i].Token) < pairKey(ps[j].Domain, ps[j].Token) })
		switch k := g.Int(label+"/pk", 0, 9); {
		case len(ps) > 0 && k <= 3:
			p := Pick(g, label+"/ex", ps)
			d, tok = p.Domain, append([]byte{}, p.Token...)
			if k == 2 { // neighbour: one byte away
				tok[g.Int(label+"/nb", 0, len(tok)-1)] ^= 1
			} else if k == 3 { // same token, other domain
				d = g.Domain(label + "/od")
			}
		default:
			d = g.Domain(label + "/dom")
			tok = g.B32(label+"/tok", by)
			if g.Pct(label+"/toklen", 8) {
				tok = append(tok, 1)[:Pick(g, label+"/tl", []int{0, 20, 31, 33})]
			}
		}
		local := g.Denom(label + "/local")
		if t == "LinkTokenPair" {
			msg = &types.MsgLinkTokenPair{From: by, RemoteDomain: d, RemoteToken: tok, LocalToken: local}
		} else {
			msg = &types.MsgUnlinkTokenPair{From: by, RemoteDomain: d, RemoteToken: tok, LocalToken: local}
		}
	case "SetMaxBurnAmountPerMessage":
		msg = &types.MsgSetMaxBurnAmountPerMessage{From: by, LocalToken: g.Denom(label + "/denom"), Amount: Int(g.Amount(label+"/amt", nil))}
	default:
		panic("admin type " + t)
	}
	return TxOp("admin:"+t, msg)
}

// AdminOp draws a privileged transaction; holderPct is the chance that the
// submitter is the required role holder.
func (g *G) AdminOp(label string, holderPct int, among []string) *Op {
	if among == nil {
		among = AdminTypes
	}
	t := Pick(g, label+"/type", among)
	slot := RoleSlotOf(t)
	var by string
	if slot == 4 {
		if g.W.Model.Pending != nil && validAddr(*g.W.Model.Pending) && AcctOfBytes(fromBytes(*g.W.Model.Pending)) >= 0 && g.Pct(label+"/holder", holderPct) {
			by = *g.W.Model.Pending
		} else {
			by = Acct(g.Acct(label + "/by"))
		}
	} else {
		by = g.HolderOr(label+"/by", slot, holderPct)
		if AcctOfBytes(fromBytes(by)) < 0 {
			by = Acct(g.Acct(label + "/by2"))
		}
	}
	return g.AdminOpOf(label, t, by)
}

// LedgerOpDraw draws a change of the dependency's state.
func (g *G) LedgerOpDraw(label string) *Op {
	m := g.W.Model
	lo := &LedgerOp{}
	acct := func() string {
		if g.Pct(label+"/mod", 12) {
			return ModuleAddr()
		}
		return Acct(g.Acct(label + "/a"))
	}
	switch g.Int(label+"/k", 0, 10) {
	case 0:
		lo.What = "pause"
	case 1, 2:
		lo.What = "unpause"
	case 3:
		lo.What = "blacklist"
		lo.Addr = acct()
	case 4:
		lo.What = "unblacklist"
		lo.Addr = acct()
	case 8:
		lo.What = "nominter"
	case 9, 10:
		lo.What = "minter"
	case 5:
		lo.What = "allowance"
		a := g.Amount(label+"/amt", nil)
		lo.Amount = a.Abs(a).String()
	default:
		lo.What = "fund"
		lo.Addr = Acct(g.Acct(label + "/a"))
		lo.Denom = m.L.Denom
		lo.Amount = big.NewInt(int64(g.Int(label+"/amt", 1, 1000000))).String()
	}
	return &Op{Kind: "ledger", Ledger: lo, Label: "ledger:" + lo.What}
}

// ---- genesis ---------------------------------------------------------------------------------

// GenOpts steers BaseGenesis.
type GenOpts struct {
	MaxAtt       int
	Fold         *bool
	PrefundMod   bool
	BigBalances  bool
	NoPause      bool
	ManyEntries  bool
	StartNonce   *uint64
	UsedInGen    bool
	UpperPairGen bool // link a pair through genesis with upper-case local token
	MixedDenom   bool // in a fifth of the cases the minting denom has upper-case letters ("uUSDC")
	ManyUsed     bool // an eighth of the cases start with 101..130 used nonces (more than one default query page)
	ShortToken   bool // a third of the cases link (through genesis only) a pair whose remote token has 20 bytes
	OddMessenger bool // in an eighth of the cases one genesis messenger's address is not 32 bytes long (36 or 20)
	EmptyRoles   bool // in an eighth of the cases one to three of the non-owner role slots are empty strings in genesis
	OtherLocal   bool // in a quarter of the cases a genesis pair maps a remote token to a local denom that is not the minting denom ("ueurc")
	NoAttesters  bool // in a tenth of the cases the genesis lists no attester at all while the threshold is 1..3 (validation accepts that)
	ManyRegistry bool // in a tenth of the cases one registry (attesters, limits, pairs, messengers) starts with 101..115 entries
	AbsentOpt    bool // in a sixth of the cases optional genesis fields (flags, body size, counter, threshold) are left out
	CaseLimits   bool // in a quarter of the cases a second burn limit exists for the upper-cased denom, with another amount
	Decoys       bool // in a quarter of the cases the attester registry also holds odd entries (empty, truncated, non-hex)
}

func (g *G) drawGenesis(o GenOpts) *GenSpec {
	t := g.T
	gs := &GenSpec{}
	for i := range gs.Roles {
		gs.Roles[i] = rapid.IntRange(0, NAccts-1).Draw(t, fmt.Sprintf("role%d", i))
	}
	maxAtt := o.MaxAtt
	if maxAtt == 0 {
		maxAtt = 4
	}
	n := rapid.IntRange(1, maxAtt).Draw(t, "natt")
	keys := rapid.Permutation(seq(NKeys)).Draw(t, "attkeys")[:n]
	for _, k := range keys {
		gs.Attesters = append(gs.Attesters, attest.K(k).Spelling(rapid.IntRange(0, 5).Draw(t, "spelling")))
	}
	gs.Threshold = uint32(rapid.IntRange(1, n).Draw(t, "threshold"))
	if o.NoAttesters {
		switch rapid.IntRange(0, 14).Draw(t, "noattesters") {
		case 0:
			gs.Attesters = nil
			gs.Threshold = uint32(rapid.IntRange(1, 3).Draw(t, "lonelythreshold"))
		case 1:
			// fewer attesters than the threshold asks for (validation does not relate the two)
			gs.Threshold = uint32(len(gs.Attesters) + rapid.IntRange(1, 2).Draw(t, "highthreshold"))
		}
	}
	if o.Decoys && len(gs.Attesters) > 0 && rapid.IntRange(0, 3).Draw(t, "decoys") == 0 {
		for i, k := 0, rapid.IntRange(1, 2).Draw(t, "ndecoys"); i < k; i++ {
			d := rapid.SampledFrom([]string{"", "0x", "zz", "04", "0x04", Hex(attest.K(9).Pub[1:]), Hex(attest.K(10).Pub[:33]), "0x" + Hex(attest.K(11).Pub[33:])}).Draw(t, "decoy")
			dup := false
			for _, a := range gs.Attesters {
				dup = dup || a == d
			}
			if !dup {
				gs.Attesters = append(gs.Attesters, d)
			}
		}
	}
	if !o.NoPause {
		gs.BMPaused = rapid.IntRange(0, 9).Draw(t, "bm") == 0
		gs.SRPaused = rapid.IntRange(0, 9).Draw(t, "sr") == 0
	}
	gs.MaxBody = rapid.SampledFrom([]uint64{8000, 8000, 8000, 256, 132, 133, 131, 200}).Draw(t, "maxbody")
	if o.StartNonce != nil {
		gs.NextNonce = *o.StartNonce
	} else {
		gs.NextNonce = rapid.SampledFrom([]uint64{0, 0, 0, 1, 1<<31 - 1, 1<<32 - 2, 1<<32 - 1, 1 << 32, 1<<63 - 2, 1<<63 - 1, 1 << 63, 1<<64 - 1000,
			// where the varint encoding of the stored counter changes length (7 bits per byte)
			1<<7 - 1, 1 << 7, 1 << 14, 1 << 21, 1 << 28, 1<<35 - 1, 1 << 35, 1<<42 - 1, 1 << 42, 1<<42 + 12345, 1<<49 - 1, 1 << 49, 1 << 56}).Draw(t, "nextnonce")
	}
	denom := "uusdc"
	if o.MixedDenom && rapid.IntRange(0, 4).Draw(t, "mixeddenom") == 0 {
		denom = "uUSDC"
	}
	fold := rapid.IntRange(0, 3).Draw(t, "fold") == 0
	if o.Fold != nil {
		fold = *o.Fold
	}
	// messengers and pairs
	nd := rapid.IntRange(1, 3).Draw(t, "ndom")
	if o.ManyEntries {
		nd = rapid.IntRange(3, 5).Draw(t, "ndom2")
	}
	doms := rapid.Permutation(Domains).Draw(t, "doms")[:nd]
	if rapid.IntRange(0, 3).Draw(t, "domzero") == 0 {
		has0 := false
		for _, d := range doms {
			has0 = has0 || d == 0
		}
		if !has0 {
			doms[0] = 0
		}
	}
	for i, d := range doms {
		if d == 4 && rapid.Bool().Draw(t, "nodomain4") {
			d = 6 // (half of the time Noble's own domain id stays: nothing forbids a messenger or a used nonce for it)
		}
		addr := make([]byte, 32)
		copy(addr[12:], attest.Keccak([]byte{byte(i), 'm'})[:20])
		gs.Messengers = append(gs.Messengers, MsgrSpec{Domain: d, Addr: Hex(addr)})
		np := rapid.IntRange(1, 2).Draw(t, "npairs")
		for j := 0; j < np; j++ {
			tok := Pad32(attest.Keccak([]byte{byte(i), byte(j), 't'})[:20])
			local := denom
			if o.UpperPairGen && j == 1 {
				local = strings.ToUpper(denom)
			}
			gs.Pairs = append(gs.Pairs, PairSpec{Domain: d, Token: Hex(tok), Local: local})
		}
	}
	if o.ShortToken && rapid.IntRange(0, 2).Draw(t, "shorttoken") == 0 {
		gs.Pairs = append(gs.Pairs, PairSpec{Domain: gs.Messengers[0].Domain, Token: Hex(attest.Keccak([]byte("short-token"))[:20]), Local: denom})
	}
	if rapid.IntRange(0, 2).Draw(t, "haslimit") == 0 {
		gs.Limits = append(gs.Limits, LimitSpec{Denom: strings.ToLower(denom), Amount: rapid.SampledFrom([]string{"1", "1000", "1000000", "18446744073709551616"}).Draw(t, "limit")})
	}
	if o.OddMessenger && len(gs.Messengers) > 0 && rapid.IntRange(0, 7).Draw(t, "oddmessenger") == 0 {
		i := rapid.IntRange(0, len(gs.Messengers)-1).Draw(t, "oddmsgri")
		a := UnHex(gs.Messengers[i].Addr)
		if rapid.Bool().Draw(t, "oddmsgrlong") {
			a = append(a, 0xde, 0xad, 0xbe, 0xef)
		} else {
			a = a[12:]
		}
		gs.Messengers[i].Addr = Hex(a)
	}
	if o.EmptyRoles && rapid.IntRange(0, 7).Draw(t, "emptyroles") == 0 {
		for slot := 1; slot <= 3; slot++ {
			if rapid.Bool().Draw(t, fmt.Sprintf("norole%d", slot)) {
				gs.NoRole = append(gs.NoRole, slot)
			}
		}
	}
	if o.OtherLocal && len(gs.Messengers) > 0 && rapid.IntRange(0, 3).Draw(t, "otherlocal") == 0 {
		gs.Pairs = append(gs.Pairs, PairSpec{Domain: gs.Messengers[0].Domain, Token: Hex(Pad32(attest.Keccak([]byte("eurc"))[:20])), Local: "ueurc"})
	}
	if o.ManyRegistry && rapid.IntRange(0, 9).Draw(t, "manyreg") == 0 {
		k := rapid.IntRange(101, 115).Draw(t, "manyregn")
		switch rapid.IntRange(0, 3).Draw(t, "manyregwhich") {
		case 0:
			for i := 0; i < k; i++ {
				gs.Attesters = append(gs.Attesters, fmt.Sprintf("04%0128x", 1000+i)) // well-formed entries that are nobody's key
			}
		case 1:
			for i := 0; i < k; i++ {
				gs.Limits = append(gs.Limits, LimitSpec{Denom: fmt.Sprintf("udenom%03d", i), Amount: fmt.Sprint(i + 1)})
			}
		case 2:
			for i := 0; i < k; i++ {
				gs.Pairs = append(gs.Pairs, PairSpec{Domain: 77, Token: Hex(attest.Keccak([]byte{byte(i), 'b'})), Local: denom})
			}
		default:
			for i := 0; i < k; i++ {
				gs.Messengers = append(gs.Messengers, MsgrSpec{Domain: uint32(5000 + i), Addr: Hex(Pad32([]byte{byte(i), 1}))})
			}
		}
	}
	if o.CaseLimits && rapid.IntRange(0, 3).Draw(t, "caselimits") == 0 {
		if len(gs.Limits) == 0 {
			gs.Limits = append(gs.Limits, LimitSpec{Denom: strings.ToLower(denom), Amount: "1000000"})
		}
		if up := strings.ToUpper(denom); up != gs.Limits[0].Denom {
			gs.Limits = append(gs.Limits, LimitSpec{Denom: up, Amount: rapid.SampledFrom([]string{"5", "999", "2000000"}).Draw(t, "uplimit")})
		}
	}
	if o.AbsentOpt && rapid.IntRange(0, 5).Draw(t, "absentopt") == 0 {
		for _, f := range []string{"bm", "sr", "maxbody", "nextnonce", "threshold"} {
			if rapid.Bool().Draw(t, "absent-"+f) {
				gs.Absent = append(gs.Absent, f)
			}
		}
	}
	if o.UsedInGen {
		for i := 0; i < rapid.IntRange(0, 3).Draw(t, "nused"); i++ {
			gs.Used = append(gs.Used, UsedSpec{rapid.SampledFrom(Domains).Draw(t, "ud"), rapid.SampledFrom(Nonces).Draw(t, "un")})
		}
		gs.Used = dedupUsed(gs.Used)
	}
	if o.ManyUsed && rapid.IntRange(0, 7).Draw(t, "manyused") == 0 {
		for i, k := 0, rapid.IntRange(101, 130).Draw(t, "nmany"); i < k; i++ {
			gs.Used = append(gs.Used, UsedSpec{Domain: 0, Nonce: uint64(5000 + i)})
		}
		gs.Used = dedupUsed(gs.Used)
	}
	lg := chain.LedgerGenesis{MintingDenom: denom, ModuleIsMinter: true, FoldDenomCase: fold}
	lg.Allowance = rapid.SampledFrom([]string{"1000000000000", "115792089237316195423570985008687907853269984665640564039457584007913129639935", "1000"}).Draw(t, "allowance")
	for i := 0; i < NAccts; i++ {
		var amt string
		switch rapid.IntRange(0, 5).Draw(t, fmt.Sprintf("bal%d", i)) {
		case 0:
			amt = "0"
		case 1:
			amt = "1000"
		case 2:
			if o.BigBalances {
				amt = Max256.String()
			} else {
				amt = "18446744073709551617"
			}
		default:
			amt = "1000000000"
		}
		if amt != "0" {
			lg.Balances = append(lg.Balances, chain.LedgerBal{Addr: Acct(i), Denom: denom, Amount: amt})
		}
	}
	if o.PrefundMod {
		lg.Balances = append(lg.Balances, chain.LedgerBal{Addr: ModuleAddr(), Denom: denom, Amount: "5000"})
	}
	gs.Ledger = lg
	return gs
}

func dedupUsed(us []UsedSpec) []UsedSpec {
	seen := map[UsedSpec]bool{}
	var out []UsedSpec
	for _, u := range us {
		if !seen[u] {
			seen[u] = true
			out = append(out, u)
		}
	}
	return out
}

// DrawGenesis draws a genesis specification.
func DrawGenesis(t *rapid.T, o GenOpts) *GenSpec {
	g := &G{T: t}
	return g.drawGenesis(o)
}

// ---- replacements ---------------------------------------------------------------------------

// forgeOutbound builds a message that looks outbound (source domain 4) but was
// never emitted; sender is the given 32 bytes.
func (g *G) forgeOutbound(label string, sender []byte, burnBody bool, depositor string) []byte {
	m := &refcodec.Message{Version: 0, Source: 4, Dest: g.Domain(label + "/dest"), Nonce: rapid.Uint64().Draw(g.T, label+"/nonce"),
		Sender: sender, Recip: g.NonZero32(label+"/recip", depositor), Caller: make([]byte, 32)}
	if burnBody {
		b := &refcodec.Burn{Version: 0, BurnToken: attest.Keccak([]byte(g.W.Model.L.Denom)), MintRecip: g.NonZero32(label+"/mr", depositor),
			Amount: g.PosAmount(label + "/amt"), MsgSender: Pad32(fromBytes(depositor))}
		m.Body, _ = refcodec.EncodeBurn(b)
	} else {
		m.Body = g.Body(label + "/body")
	}
	bz, _ := refcodec.EncodeMessage(m)
	return bz
}

// ReplaceOp draws a replace-message: validPct% are fully valid replacements of a
// message this chain emitted (when one exists).
func (g *G) ReplaceOp(label string, validPct int) *Op {
	var cands []SentMsg
	for _, s := range g.W.Sent {
		if s.Msg != nil && AcctOfBytes(s.Msg.Sender[12:]) >= 0 && IsZero(s.Msg.Sender[:12]) {
			cands = append(cands, s)
		}
	}
	valid := g.Pct(label+"/valid", validPct) && len(cands) > 0
	var orig []byte
	var by string
	cls := "own"
	switch {
	case valid:
		s := Pick(g, label+"/orig", cands)
		orig, by = s.Bytes, sdk.AccAddress(s.Msg.Sender[12:]).String()
	default:
		by = Acct(g.Acct(label + "/by"))
		switch k := g.Int(label+"/bad", 0, 6); {
		case k == 0 && len(cands) > 0: // someone else's
			s := Pick(g, label+"/orig", cands)
			orig = s.Bytes
			if sdk.AccAddress(s.Msg.Sender[12:]).String() == by {
				by = Acct((AcctOfBytes(fromBytes(by)) + 1) % NAccts)
			}
			cls = "someone-elses"
		case k == 1: // inbound-looking (source != 4), sender = submitter, attested
			in := g.Inbound(label+"/in", InboundOpts{Submitter: by})
			dm, _ := refcodec.DecodeMessage(in.Msg)
			dm.Sender = Pad32(fromBytes(by))
			if dm.Source == 4 {
				dm.Source = 0
			}
			orig, _ = refcodec.EncodeMessage(dm)
			cls = "foreign-domain"
		case k == 2 && len(g.W.Sent) > 0: // module-sent message by a plain replace
			orig = Pick(g, label+"/orig", g.W.Sent).Bytes
			cls = "any-sent"
		case k == 3: // forged own message, honestly signed (A3 lifted on purpose: negative/positive per conditions)
			orig = g.forgeOutbound(label+"/forge", Pad32(fromBytes(by)), false, by)
			cls = "forged-own"
		case k == 4: // short
			orig = g.Bytes(label+"/short", g.Int(label+"/sl", 0, 115))
			cls = "short"
		default:
			if len(cands) > 0 {
				s := Pick(g, label+"/orig", cands)
				orig, by = s.Bytes, sdk.AccAddress(s.Msg.Sender[12:]).String()
				cls = "own-badatt"
			} else {
				orig = g.forgeOutbound(label+"/forge", Pad32(fromBytes(by)), false, by)
				cls = "forged-own"
			}
		}
	}
	var att []byte
	if cls == "own-badatt" {
		att, _ = g.BadAttestation(label+"/att", orig)
	} else if g.NoForge && (cls == "forged-own" || cls == "forged-module" || cls == "user-sent-burn") {
		att = g.Bytes(label+"/unsigned", 65*maxInt(1, minInt(40, int(g.W.Model.Thr))))
	} else {
		att = g.HonestAttestation(label+"/att", orig)
		if att == nil {
			att = g.Bytes(label+"/noatt", 65)
		}
	}
	caller := g.replCaller(label, by)
	body := g.Body(label + "/body")
	if valid && uint64(len(body)) > g.W.Model.MaxBody {
		body = body[:g.W.Model.MaxBody]
	}
	op := TxOp("replace", &types.MsgReplaceMessage{From: by, OriginalMessage: orig, OriginalAttestation: att, NewMessageBody: body, NewDestinationCaller: caller})
	return op.WithMeta("orig", cls)
}

// replCaller draws the new destination caller of a replacement: mostly a 32-byte value, sometimes
// absent, short or over-long (whatever the rest of the request looks like).
func (g *G) replCaller(label, by string) []byte {
	switch k := g.Int(label+"/caller", 0, 19); {
	case k <= 6:
		return make([]byte, 32)
	case k <= 15:
		return g.NonZero32(label+"/cl", by)
	case k == 16:
		return nil
	case k == 17:
		return []byte{}
	default:
		return g.Bytes(label+"/clodd", Pick(g, label+"/cll", []int{1, 20, 31, 33, 64}))
	}
}

// RepDepOp draws a replace-deposit-for-burn.
func (g *G) RepDepOp(label string, validPct int) *Op {
	var cands []SentMsg
	for _, s := range g.W.Sent {
		if s.Burn != nil && bytes.Equal(s.Msg.Sender, Pad32(ModuleAddrBytes())) && AcctOfBytes(s.Burn.MsgSender[12:]) >= 0 {
			cands = append(cands, s)
		}
	}
	valid := g.Pct(label+"/valid", validPct) && len(cands) > 0
	var orig []byte
	var by string
	cls := "own-deposit"
	// a burn-shaped message that a user (not the module) really sent on this chain, replaced by that user
	var userBurns []SentMsg
	for _, s := range g.W.Sent {
		if s.Burn != nil && !bytes.Equal(s.Msg.Sender, Pad32(ModuleAddrBytes())) {
			userBurns = append(userBurns, s)
		}
	}
	switch {
	case len(userBurns) > 0 && g.Pct(label+"/userburn-first", 30):
		s := Pick(g, label+"/ub", userBurns)
		orig, by = s.Bytes, Acct(g.Acct(label+"/by"))
		if a := s.Burn.MsgSender; IsZero(a[:12]) && AcctOfBytes(a[12:]) >= 0 {
			by = sdk.AccAddress(a[12:]).String()
		}
		cls = "any-sent"
	case valid:
		s := Pick(g, label+"/orig", cands)
		orig, by = s.Bytes, sdk.AccAddress(s.Burn.MsgSender[12:]).String()
	default:
		by = Acct(g.Acct(label + "/by"))
		switch k := g.Int(label+"/bad", 0, 5); {
		case k == 0 && len(cands) > 0:
			s := Pick(g, label+"/orig", cands)
			orig = s.Bytes
			if sdk.AccAddress(s.Burn.MsgSender[12:]).String() == by {
				by = Acct((AcctOfBytes(fromBytes(by)) + 1) % NAccts)
			}
			cls = "someone-elses"
		case k == 1: // burn-shaped message sent by the submitter itself (not the module)
			orig = g.forgeOutbound(label+"/forge", Pad32(fromBytes(by)), true, by)
			cls = "user-sent-burn"
		case k == 2: // forged module-sender burn message naming the submitter as depositor
			orig = g.forgeOutbound(label+"/forge", Pad32(ModuleAddrBytes()), true, by)
			cls = "forged-module"
		case k == 3 && len(g.W.Sent) > 0:
			// any message this chain really emitted, preferably a user-sent one with a burn-shaped body
			var us []SentMsg
			for _, s := range g.W.Sent {
				if s.Burn != nil && !bytes.Equal(s.Msg.Sender, Pad32(ModuleAddrBytes())) {
					us = append(us, s)
				}
			}
			if len(us) > 0 && g.Pct(label+"/userburn", 70) {
				s := Pick(g, label+"/uorig", us)
				orig = s.Bytes
				if a := s.Burn.MsgSender; IsZero(a[:12]) && AcctOfBytes(a[12:]) >= 0 {
					by = sdk.AccAddress(a[12:]).String()
				}
			} else {
				orig = Pick(g, label+"/orig", g.W.Sent).Bytes
			}
			cls = "any-sent"
		case k == 4:
			orig = g.Bytes(label+"/short", g.Int(label+"/sl", 0, 250))
			cls = "short"
		default:
			if len(cands) > 0 {
				s := Pick(g, label+"/orig", cands)
				orig, by = s.Bytes, sdk.AccAddress(s.Burn.MsgSender[12:]).String()
				cls = "own-badatt"
			} else {
				orig = g.forgeOutbound(label+"/forge", Pad32(ModuleAddrBytes()), true, by)
				cls = "forged-module"
			}
		}
	}
	var att []byte
	if cls == "own-badatt" {
		att, _ = g.BadAttestation(label+"/att", orig)
	} else if g.NoForge && (cls == "forged-own" || cls == "forged-module" || cls == "user-sent-burn") {
		att = g.Bytes(label+"/unsigned", 65*maxInt(1, minInt(40, int(g.W.Model.Thr))))
	} else {
		att = g.HonestAttestation(label+"/att", orig)
		if att == nil {
			att = g.Bytes(label+"/noatt", 65)
		}
	}
	caller := g.replCaller(label, by)
	var mr []byte
	switch k := g.Int(label+"/mrk", 0, 19); {
	case k <= 15:
		mr = g.NonZero32(label+"/mr", by)
	case k == 16:
		mr = g.B32(label+"/mr", by)
	case k == 17:
		mr = g.NonZero32(label+"/mr", by)[:Pick(g, label+"/mrl", []int{0, 1, 20, 31})]
	default:
		// over-long: a 32-byte recipient followed by bytes that would land in the amount / depositor fields
		mr = append(g.NonZero32(label+"/mr", by), g.Bytes(label+"/mrx", Pick(g, label+"/mrxl", []int{1, 32, 64, 100}))...)
		mr[len(mr)-1] |= 1
	}
	op := TxOp("repdep", &types.MsgReplaceDepositForBurn{From: by, OriginalMessage: orig, OriginalAttestation: att, NewDestinationCaller: caller, NewMintRecipient: mr})
	return op.WithMeta("orig", cls)
}

// Multi merges the messages of several transaction ops into one transaction.
func Multi(ops ...*Op) *Op {
	var msgs []sdk.Msg
	for _, o := range ops {
		msgs = append(msgs, o.msgs...)
	}
	return TxOp("multi", msgs...)
}

// ValidReplaceOp draws a replace-message whose every documented condition holds
// (apart from the pause flags): an emitted message of a universe account when one
// exists, else a forged own message that the attesters sign (A3 lifted on purpose).
func (g *G) ValidReplaceOp(label string, by string) *Op {
	var cands []SentMsg
	for _, s := range g.W.Sent {
		if s.Msg != nil && AcctOfBytes(s.Msg.Sender[12:]) >= 0 && IsZero(s.Msg.Sender[:12]) && !IsZero(s.Msg.Recip) {
			cands = append(cands, s)
		}
	}
	var orig []byte
	if len(cands) > 0 && g.Pct(label+"/real", 70) {
		s := Pick(g, label+"/orig", cands)
		orig, by = s.Bytes, sdk.AccAddress(s.Msg.Sender[12:]).String()
	} else {
		orig = g.forgeOutbound(label+"/forge", Pad32(fromBytes(by)), false, by)
	}
	att := g.HonestAttestation(label+"/att", orig)
	if att == nil {
		att = []byte{}
	}
	caller := make([]byte, 32)
	if g.Bool(label + "/nzcaller") {
		caller = g.NonZero32(label+"/cl", by)
	}
	n := g.Int(label+"/bl", 0, 64)
	if uint64(n) > g.W.Model.MaxBody {
		n = int(g.W.Model.MaxBody)
	}
	return TxOp("replace", &types.MsgReplaceMessage{From: by, OriginalMessage: orig, OriginalAttestation: att, NewMessageBody: g.Bytes(label+"/body", n), NewDestinationCaller: caller})
}

// ValidRepDepOp is the deposit counterpart of ValidReplaceOp.
func (g *G) ValidRepDepOp(label string, by string) *Op {
	var cands []SentMsg
	for _, s := range g.W.Sent {
		if s.Burn != nil && bytes.Equal(s.Msg.Sender, Pad32(ModuleAddrBytes())) && AcctOfBytes(s.Burn.MsgSender[12:]) >= 0 && IsZero(s.Burn.MsgSender[:12]) && !IsZero(s.Msg.Recip) {
			cands = append(cands, s)
		}
	}
	var orig []byte
	if len(cands) > 0 && g.Pct(label+"/real", 70) {
		s := Pick(g, label+"/orig", cands)
		orig, by = s.Bytes, sdk.AccAddress(s.Burn.MsgSender[12:]).String()
	} else {
		orig = g.forgeOutbound(label+"/forge", Pad32(ModuleAddrBytes()), true, by)
	}
	att := g.HonestAttestation(label+"/att", orig)
	if att == nil {
		att = []byte{}
	}
	caller := make([]byte, 32)
	if g.Bool(label + "/nzcaller") {
		caller = g.NonZero32(label+"/cl", by)
	}
	return TxOp("repdep", &types.MsgReplaceDepositForBurn{From: by, OriginalMessage: orig, OriginalAttestation: att, NewDestinationCaller: caller, NewMintRecipient: g.NonZero32(label+"/mr", by)})
}
