package sim

import (
	"bytes"
	"fmt"
	"math/big"
	"sort"
	"strings"

	"github.com/circlefin/noble-cctp/x/cctp/types"
	sdk "github.com/cosmos/cosmos-sdk/types"
	"github.com/cosmos/cosmos-sdk/types/bech32"

	"verif/harness/attest"
	"verif/harness/chain"
	"verif/harness/refcodec"
)

// ---- genesis specification (for history-based properties) ---------------------------

// AbsentAmount as a LimitSpec amount: the genesis entry carries no amount field.
const AbsentAmount = "absent"

type LimitSpec struct {
	Denom  string `json:"denom"`
	Amount string `json:"amount"`
}
type PairSpec struct {
	Domain uint32 `json:"domain"`
	Token  string `json:"token"` // hex
	Local  string `json:"local"`
}
type MsgrSpec struct {
	Domain uint32 `json:"domain"`
	Addr   string `json:"addr"` // hex
}
type UsedSpec struct {
	Domain uint32 `json:"domain"`
	Nonce  uint64 `json:"nonce"`
}

// GenSpec is a fully specified module + ledger genesis.
type GenSpec struct {
	Roles      [4]int              `json:"roles"` // owner, attester manager, pauser, token controller
	Attesters  []string            `json:"attesters"`
	Threshold  uint32              `json:"threshold"`
	BMPaused   bool                `json:"bm_paused,omitempty"`
	SRPaused   bool                `json:"sr_paused,omitempty"`
	MaxBody    uint64              `json:"max_body"`
	NextNonce  uint64              `json:"next_nonce"`
	Limits     []LimitSpec         `json:"limits,omitempty"`
	Pairs      []PairSpec          `json:"pairs,omitempty"`
	Messengers []MsgrSpec          `json:"messengers,omitempty"`
	Used       []UsedSpec          `json:"used,omitempty"`
	Ledger     chain.LedgerGenesis `json:"ledger"`
	// Absent lists optional genesis fields left out ("bm", "sr", "maxbody", "nextnonce", "threshold"):
	// initialisation then installs the defaults (paused, paused, 8000, 0, 1).
	Absent []string `json:"absent,omitempty"`
	// NoRole lists role slots (1 attester manager, 2 pauser, 3 token controller) whose genesis string is empty:
	// validation accepts that, and nobody holds the role until the owner appoints someone.
	NoRole []int `json:"no_role,omitempty"`
}

func (g *GenSpec) absent(f string) bool {
	for _, a := range g.Absent {
		if a == f {
			return true
		}
	}
	return false
}

// ModuleGenesis renders the module part as the module's own GenesisState.
func (g *GenSpec) ModuleGenesis() *types.GenesisState {
	gs := types.DefaultGenesis()
	gs.Owner, gs.AttesterManager, gs.Pauser, gs.TokenController = Acct(g.Roles[0]), Acct(g.Roles[1]), Acct(g.Roles[2]), Acct(g.Roles[3])
	for _, slot := range g.NoRole {
		switch slot {
		case 1:
			gs.AttesterManager = ""
		case 2:
			gs.Pauser = ""
		case 3:
			gs.TokenController = ""
		}
	}
	for _, a := range g.Attesters {
		gs.AttesterList = append(gs.AttesterList, types.Attester{Attester: a})
	}
	gs.SignatureThreshold = &types.SignatureThreshold{Amount: g.Threshold}
	gs.BurningAndMintingPaused = &types.BurningAndMintingPaused{Paused: g.BMPaused}
	gs.SendingAndReceivingMessagesPaused = &types.SendingAndReceivingMessagesPaused{Paused: g.SRPaused}
	gs.MaxMessageBodySize = &types.MaxMessageBodySize{Amount: g.MaxBody}
	gs.NextAvailableNonce = &types.Nonce{Nonce: g.NextNonce}
	if g.absent("bm") {
		gs.BurningAndMintingPaused = nil
	}
	if g.absent("sr") {
		gs.SendingAndReceivingMessagesPaused = nil
	}
	if g.absent("maxbody") {
		gs.MaxMessageBodySize = nil
	}
	if g.absent("nextnonce") {
		gs.NextAvailableNonce = nil
	}
	if g.absent("threshold") {
		gs.SignatureThreshold = nil
	}
	for _, l := range g.Limits {
		if l.Amount == AbsentAmount {
			// the entry names a denom and no amount (the file says {"denom": "..."}): validation accepts it, and the
			// limit that gets stored is the zero amount
			gs.PerMessageBurnLimitList = append(gs.PerMessageBurnLimitList, types.PerMessageBurnLimit{Denom: l.Denom})
			continue
		}
		gs.PerMessageBurnLimitList = append(gs.PerMessageBurnLimitList, types.PerMessageBurnLimit{Denom: l.Denom, Amount: Int(Big(l.Amount))})
	}
	for _, p := range g.Pairs {
		gs.TokenPairList = append(gs.TokenPairList, types.TokenPair{RemoteDomain: p.Domain, RemoteToken: UnHex(p.Token), LocalToken: p.Local})
	}
	for _, m := range g.Messengers {
		gs.TokenMessengerList = append(gs.TokenMessengerList, types.RemoteTokenMessenger{DomainId: m.Domain, Address: UnHex(m.Addr)})
	}
	for _, u := range g.Used {
		gs.UsedNoncesList = append(gs.UsedNoncesList, types.Nonce{SourceDomain: u.Domain, Nonce: u.Nonce})
	}
	return gs
}

func (g *GenSpec) ChainGenesis() chain.Genesis {
	raw := chain.Codec().MustMarshalJSON(g.ModuleGenesis())
	absent := map[string]bool{}
	for _, l := range g.Limits {
		if l.Amount == AbsentAmount {
			absent[l.Denom] = true
		}
	}
	if len(absent) > 0 {
		raw = StripLimitAmounts(raw, func(d, _ string) bool { return absent[d] })
	}
	return chain.Genesis{Cctp: raw, Ledger: g.Ledger}
}

// ---- reference model -----------------------------------------------------------------

type PairEntry struct {
	Domain uint32
	Token  []byte
	Local  string
}

type LedgerModel struct {
	Denom  string
	Fold   bool
	Minter bool
	Paused bool
	Allow  *big.Int
	Bal    map[string]*big.Int // hex(addr)/denom
	Supply map[string]*big.Int
	BL     map[string]bool // hex(addr)
	Burned *big.Int        // destroyed through Burn in the minting denom
	Minted *big.Int
}

type Model struct {
	Roles   [4]string
	Pending *string
	BM, SR  bool
	MaxBody uint64
	Next    uint64
	Thr     uint32
	Atts    map[string]bool
	Limits  map[string]*big.Int
	Pairs   map[string]PairEntry // key "domain/hextoken"
	Msgrs   map[uint32][]byte
	Used    map[UsedSpec]bool
	L       LedgerModel
}

func pairKey(d uint32, tok []byte) string { return fmt.Sprintf("%d/%x", d, tok) }
func balKey(addr []byte, denom string) string {
	return fmt.Sprintf("%x/%s", addr, denom)
}

func NewModel(g *GenSpec) *Model {
	m := &Model{BM: g.BMPaused, SR: g.SRPaused, MaxBody: g.MaxBody, Next: g.NextNonce, Thr: g.Threshold,
		Atts: map[string]bool{}, Limits: map[string]*big.Int{}, Pairs: map[string]PairEntry{}, Msgrs: map[uint32][]byte{}, Used: map[UsedSpec]bool{}}
	if g.absent("bm") {
		m.BM = true
	}
	if g.absent("sr") {
		m.SR = true
	}
	if g.absent("maxbody") {
		m.MaxBody = 8000
	}
	if g.absent("nextnonce") {
		m.Next = 0
	}
	if g.absent("threshold") {
		m.Thr = 1
	}
	for i := 0; i < 4; i++ {
		m.Roles[i] = Acct(g.Roles[i])
	}
	for _, slot := range g.NoRole {
		if slot >= 1 && slot <= 3 {
			m.Roles[slot] = ""
		}
	}
	for _, a := range g.Attesters {
		m.Atts[a] = true
	}
	for _, l := range g.Limits {
		if l.Amount == AbsentAmount {
			m.Limits[l.Denom] = new(big.Int)
			continue
		}
		m.Limits[l.Denom] = Big(l.Amount)
	}
	for _, p := range g.Pairs {
		m.Pairs[pairKey(p.Domain, UnHex(p.Token))] = PairEntry{p.Domain, UnHex(p.Token), p.Local}
	}
	for _, x := range g.Messengers {
		m.Msgrs[x.Domain] = UnHex(x.Addr)
	}
	for _, u := range g.Used {
		m.Used[u] = true
	}
	lg := g.Ledger
	m.L = LedgerModel{Denom: lg.MintingDenom, Fold: lg.FoldDenomCase, Minter: lg.ModuleIsMinter, Paused: lg.Paused,
		Allow: Big(orZero(lg.Allowance)), Bal: map[string]*big.Int{}, Supply: map[string]*big.Int{}, BL: map[string]bool{}, Burned: new(big.Int), Minted: new(big.Int)}
	for _, b := range lg.Balances {
		addr := sdk.MustAccAddressFromBech32(b.Addr)
		bd := m.L.norm(b.Denom)
		k := balKey(addr, bd)
		m.L.Bal[k] = new(big.Int).Add(m.L.bal(k), Big(b.Amount))
		m.L.Supply[bd] = new(big.Int).Add(m.L.sup(bd), Big(b.Amount))
	}
	for _, a := range lg.Blacklist {
		m.L.BL[Hex(sdk.MustAccAddressFromBech32(a))] = true
	}
	return m
}

func orZero(s string) string {
	if s == "" {
		return "0"
	}
	return s
}

func (l *LedgerModel) bal(k string) *big.Int {
	if v, ok := l.Bal[k]; ok {
		return v
	}
	return new(big.Int)
}
func (l *LedgerModel) sup(d string) *big.Int {
	if v, ok := l.Supply[d]; ok {
		return v
	}
	return new(big.Int)
}
// NDenom is the minting denom as the ledger keys it (lower-cased in fold mode).
func (l *LedgerModel) NDenom() string { return l.norm(l.Denom) }

// Norm is the ledger's own reading of a denom (identity, or lower-casing in fold mode).
func (l *LedgerModel) Norm(d string) string { return l.norm(d) }

func (l *LedgerModel) norm(d string) string {
	if l.Fold {
		return strings.ToLower(d)
	}
	return d
}

func (m *Model) Clone() *Model {
	c := *m
	if m.Pending != nil {
		p := *m.Pending
		c.Pending = &p
	}
	c.Atts = map[string]bool{}
	for k, v := range m.Atts {
		c.Atts[k] = v
	}
	c.Limits = map[string]*big.Int{}
	for k, v := range m.Limits {
		c.Limits[k] = v
	}
	c.Pairs = map[string]PairEntry{}
	for k, v := range m.Pairs {
		c.Pairs[k] = v
	}
	c.Msgrs = map[uint32][]byte{}
	for k, v := range m.Msgrs {
		c.Msgrs[k] = v
	}
	c.Used = map[UsedSpec]bool{}
	for k, v := range m.Used {
		c.Used[k] = v
	}
	c.L.Bal = map[string]*big.Int{}
	for k, v := range m.L.Bal {
		c.L.Bal[k] = v
	}
	c.L.Supply = map[string]*big.Int{}
	for k, v := range m.L.Supply {
		c.L.Supply[k] = v
	}
	c.L.BL = map[string]bool{}
	for k, v := range m.L.BL {
		c.L.BL[k] = v
	}
	c.L.Allow = new(big.Int).Set(m.L.Allow)
	c.L.Burned = new(big.Int).Set(m.L.Burned)
	c.L.Minted = new(big.Int).Set(m.L.Minted)
	return &c
}

func (m *Model) AttesterList() []string {
	var out []string
	for a := range m.Atts {
		out = append(out, a)
	}
	sort.Strings(out)
	return out
}

// ---- expectations ---------------------------------------------------------------------

type Verdict int

const (
	Unspecified Verdict = iota
	MustSucceed
	MustFail
)

func (v Verdict) String() string { return [...]string{"unspecified", "must-succeed", "must-fail"}[v] }

// ExpMsg is an outbound message expected in a MessageSent event.
type ExpMsg struct {
	Dest   uint32
	Nonce  uint64
	Sender []byte
	Recip  []byte
	Caller []byte
	Body   []byte
}

// ExpCall is a ledger request expected from a successful transaction.
type ExpCall struct {
	Kind, From, To, Denom string
	Amount                *big.Int
}

type Expect struct {
	V     Verdict
	Soft  bool            // verdict follows from appendix A (code reading) only, not from a property statement
	Why   []string        // names of the conditions that are false
	Conds map[string]bool // condition vector (receive, deposit)
	Sent  []ExpMsg
	Nonce *uint64 // response nonce of a producing message
	Calls []ExpCall
	// Writes is the documented write set of a success (full store keys).
	Writes []string
	// NecFalse lists necessary ("only if") conditions that are false (replacements).
	NecFalse []string
	apply    func(m *Model)
}

// TxCtx carries per-transaction information the model needs (fault plan).
type TxCtx struct {
	Faults map[int]bool
	ord    int
}

func (t *TxCtx) nextFault() bool {
	if t == nil {
		return false
	}
	f := t.Faults[t.ord]
	t.ord++
	return f
}

func fail(soft bool, why ...string) *Expect { return &Expect{V: MustFail, Why: why, Soft: soft} }

func keyStr(prefix string, k []byte) string { return prefix + string(k) }

// validAddr: "syntactically valid address" (D6) spelled out independently of the SDK's process-wide configuration
// (which a module can change): bech32 with the account prefix and a payload of 1..255 bytes.
func validAddr(s string) bool {
	if len(strings.TrimSpace(s)) == 0 {
		return false
	}
	hrp, bz, err := bech32.DecodeAndConvert(s)
	return err == nil && hrp == "noble" && len(bz) > 0 && len(bz) <= 255
}

// Predict returns what the documentation requires of msg in state m. It does not
// change m; call exp.Apply(m) for the effect of a success.
func (m *Model) Predict(msg sdk.Msg, tx *TxCtx) *Expect {
	switch x := msg.(type) {
	// ---- roles
	case *types.MsgUpdateOwner:
		if x.From != m.Roles[0] {
			return fail(false, "role")
		}
		if !validAddr(x.NewOwner) {
			return fail(false, "address")
		}
		return &Expect{V: MustSucceed, Writes: []string{string(types.PendingOwnerKey)}, apply: func(m *Model) { s := x.NewOwner; m.Pending = &s }}
	case *types.MsgAcceptOwner:
		if m.Pending == nil || *m.Pending != x.From {
			return fail(false, "role")
		}
		return &Expect{V: MustSucceed, Writes: []string{string(types.OwnerKey), string(types.PendingOwnerKey)}, apply: func(m *Model) { m.Roles[0] = *m.Pending; m.Pending = nil }}
	case *types.MsgUpdateAttesterManager:
		return m.roleUpdate(x.From, x.NewAttesterManager, 1, string(types.AttesterManagerKey))
	case *types.MsgUpdatePauser:
		return m.roleUpdate(x.From, x.NewPauser, 2, string(types.PauserKey))
	case *types.MsgUpdateTokenController:
		return m.roleUpdate(x.From, x.NewTokenController, 3, string(types.TokenControllerKey))
	case *types.MsgUpdateMaxMessageBodySize:
		if x.From != m.Roles[0] {
			return fail(false, "role")
		}
		return &Expect{V: MustSucceed, Writes: []string{types.MaxMessageBodySizeKey + types.MaxMessageBodySizeKey}, apply: func(m *Model) { m.MaxBody = x.MessageSize }}
	case *types.MsgAddRemoteTokenMessenger:
		if x.From != m.Roles[0] {
			return fail(false, "role")
		}
		if _, ok := m.Msgrs[x.DomainId]; ok {
			return fail(false, "exists")
		}
		if len(x.Address) != 32 {
			return fail(true, "length")
		}
		return &Expect{V: MustSucceed, Writes: []string{keyStr(types.RemoteTokenMessengerKeyPrefix, types.RemoteTokenMessengerKey(x.DomainId))},
			apply: func(m *Model) { m.Msgrs[x.DomainId] = append([]byte{}, x.Address...) }}
	case *types.MsgRemoveRemoteTokenMessenger:
		if x.From != m.Roles[0] {
			return fail(false, "role")
		}
		if _, ok := m.Msgrs[x.DomainId]; !ok {
			return fail(false, "missing")
		}
		return &Expect{V: MustSucceed, Writes: []string{keyStr(types.RemoteTokenMessengerKeyPrefix, types.RemoteTokenMessengerKey(x.DomainId))},
			apply: func(m *Model) { delete(m.Msgrs, x.DomainId) }}
	// ---- attesters
	case *types.MsgEnableAttester:
		if x.From != m.Roles[1] {
			return fail(false, "role")
		}
		bz, ok := attest.ParseSpelling(x.Attester)
		w := []string{keyStr(types.AttesterKeyPrefix, types.AttesterKey([]byte(x.Attester)))}
		ap := func(m *Model) { m.Atts[x.Attester] = true }
		if m.Atts[x.Attester] {
			return fail(false, "exists")
		}
		if ok && len(bz) == 0 {
			return fail(false, "empty")
		}
		if !ok {
			return &Expect{V: Unspecified, Writes: w, apply: ap}
		}
		return &Expect{V: MustSucceed, Writes: w, apply: ap}
	case *types.MsgDisableAttester:
		if x.From != m.Roles[1] {
			return fail(false, "role")
		}
		w := []string{keyStr(types.AttesterKeyPrefix, types.AttesterKey([]byte(x.Attester)))}
		ap := func(m *Model) { delete(m.Atts, x.Attester) }
		if !m.Atts[x.Attester] {
			return fail(false, "missing")
		}
		n := len(m.Atts)
		if n <= 1 {
			return fail(false, "last")
		}
		if uint64(n) <= uint64(m.Thr) {
			return fail(false, "threshold")
		}
		bz, ok := attest.ParseSpelling(x.Attester)
		if !ok || len(bz) == 0 {
			return &Expect{V: Unspecified, Writes: w, apply: ap}
		}
		return &Expect{V: MustSucceed, Writes: w, apply: ap}
	case *types.MsgUpdateSignatureThreshold:
		if x.From != m.Roles[1] {
			return fail(false, "role")
		}
		if x.Amount == 0 {
			return fail(false, "zero")
		}
		if x.Amount == m.Thr {
			return fail(false, "same")
		}
		if uint64(x.Amount) > uint64(len(m.Atts)) {
			return fail(false, "high")
		}
		return &Expect{V: MustSucceed, Writes: []string{types.SignatureThresholdKey + types.SignatureThresholdKey}, apply: func(m *Model) { m.Thr = x.Amount }}
	// ---- pausing
	case *types.MsgPauseBurningAndMinting:
		return m.pause(x.From, func(m *Model) { m.BM = true }, types.BurningAndMintingPausedKey)
	case *types.MsgUnpauseBurningAndMinting:
		return m.pause(x.From, func(m *Model) { m.BM = false }, types.BurningAndMintingPausedKey)
	case *types.MsgPauseSendingAndReceivingMessages:
		return m.pause(x.From, func(m *Model) { m.SR = true }, types.SendingAndReceivingMessagesPausedKey)
	case *types.MsgUnpauseSendingAndReceivingMessages:
		return m.pause(x.From, func(m *Model) { m.SR = false }, types.SendingAndReceivingMessagesPausedKey)
	// ---- token controller
	case *types.MsgLinkTokenPair:
		if x.From != m.Roles[3] {
			return fail(false, "role")
		}
		if len(x.RemoteToken) != 32 {
			return fail(true, "length")
		}
		k := pairKey(x.RemoteDomain, x.RemoteToken)
		if _, ok := m.Pairs[k]; ok {
			return fail(false, "exists")
		}
		return &Expect{V: MustSucceed, Writes: []string{keyStr(types.TokenPairKeyPrefix, types.TokenPairKey(x.RemoteDomain, x.RemoteToken))},
			apply: func(m *Model) {
				m.Pairs[k] = PairEntry{x.RemoteDomain, append([]byte{}, x.RemoteToken...), strings.ToLower(x.LocalToken)}
			}}
	case *types.MsgUnlinkTokenPair:
		if x.From != m.Roles[3] {
			return fail(false, "role")
		}
		if len(x.RemoteToken) != 32 {
			return fail(true, "length")
		}
		k := pairKey(x.RemoteDomain, x.RemoteToken)
		if _, ok := m.Pairs[k]; !ok {
			return fail(false, "missing")
		}
		return &Expect{V: MustSucceed, Writes: []string{keyStr(types.TokenPairKeyPrefix, types.TokenPairKey(x.RemoteDomain, x.RemoteToken))},
			apply: func(m *Model) { delete(m.Pairs, k) }}
	case *types.MsgSetMaxBurnAmountPerMessage:
		if x.From != m.Roles[3] {
			return fail(false, "role")
		}
		d := strings.ToLower(x.LocalToken)
		if x.Amount.IsNil() {
			return &Expect{V: Unspecified}
		}
		amt := new(big.Int).Set(x.Amount.BigInt())
		return &Expect{V: MustSucceed, Writes: []string{keyStr(types.PerMessageBurnLimitKeyPrefix, types.PerMessageBurnLimitKey(d))},
			apply: func(m *Model) { m.Limits[d] = amt }}
	// ---- user flows
	case *types.MsgSendMessage:
		return m.send(x.From, x.DestinationDomain, x.Recipient, make([]byte, 32), x.MessageBody, false)
	case *types.MsgSendMessageWithCaller:
		return m.send(x.From, x.DestinationDomain, x.Recipient, x.DestinationCaller, x.MessageBody, true)
	case *types.MsgDepositForBurn:
		return m.deposit(x.From, x.Amount.BigIntMut(), x.Amount.IsNil(), x.DestinationDomain, x.MintRecipient, x.BurnToken, nil, false, tx)
	case *types.MsgDepositForBurnWithCaller:
		return m.deposit(x.From, x.Amount.BigIntMut(), x.Amount.IsNil(), x.DestinationDomain, x.MintRecipient, x.BurnToken, x.DestinationCaller, true, tx)
	case *types.MsgReceiveMessage:
		return m.receive(x, tx)
	case *types.MsgReplaceMessage:
		return m.replace(x.From, x.OriginalMessage, x.OriginalAttestation, x.NewMessageBody, x.NewDestinationCaller)
	case *types.MsgReplaceDepositForBurn:
		return m.replaceDeposit(x)
	}
	return &Expect{V: Unspecified}
}

// Apply applies the documented effect of a success.
func (e *Expect) Apply(m *Model) {
	if e.apply != nil {
		e.apply(m)
	}
}

func (m *Model) roleUpdate(from, newAddr string, slot int, key string) *Expect {
	if from != m.Roles[0] {
		return fail(false, "role")
	}
	if !validAddr(newAddr) {
		return fail(false, "address")
	}
	return &Expect{V: MustSucceed, Writes: []string{key}, apply: func(m *Model) { m.Roles[slot] = newAddr }}
}

func (m *Model) pause(from string, f func(*Model), key string) *Expect {
	if from != m.Roles[2] {
		return fail(false, "role")
	}
	return &Expect{V: MustSucceed, Writes: []string{key + key}, apply: f}
}

var nonceKey = types.NextAvailableNonceKey + types.NextAvailableNonceKey

func fromBytes(from string) []byte {
	a, err := sdk.AccAddressFromBech32(from)
	if err != nil {
		return nil
	}
	return a
}

func (m *Model) send(from string, dest uint32, recip, caller, body []byte, withCaller bool) *Expect {
	var why []string
	if withCaller && (len(caller) != 32 || IsZero(caller)) {
		why = append(why, "caller")
	}
	if m.SR {
		why = append(why, "sr-paused")
	}
	if uint64(len(body)) > m.MaxBody {
		why = append(why, "body-size")
	}
	if len(recip) != 32 || IsZero(recip) {
		why = append(why, "recipient")
	}
	if len(why) > 0 {
		return fail(false, why...)
	}
	n := m.Next
	return &Expect{V: MustSucceed, Nonce: &n, Writes: []string{nonceKey},
		Sent:  []ExpMsg{{Dest: dest, Nonce: n, Sender: Pad32(fromBytes(from)), Recip: recip, Caller: caller, Body: body}},
		apply: func(m *Model) { m.Next++ }}
}

// tokenIsMintingDenom judges the burn token as the dependency in force does.
func (m *Model) tokenIsMintingDenom(tok string) bool {
	return m.L.norm(tok) == m.L.NDenom()
}

func (m *Model) deposit(from string, amt *big.Int, amtNil bool, dest uint32, mr []byte, tok string, caller []byte, withCaller bool, tx *TxCtx) *Expect {
	c := map[string]bool{}
	c["amount-positive"] = !amtNil && amt.Sign() > 0
	c["recipient"] = len(mr) == 32 && !IsZero(mr)
	msgr, ok := m.Msgrs[dest]
	c["messenger"] = ok && len(msgr) == 32 && !IsZero(msgr)
	c["token"] = m.tokenIsMintingDenom(tok) && sdk.ValidateDenom(tok) == nil
	c["bm-unpaused"] = !m.BM
	lim, hasLim := m.Limits[strings.ToLower(tok)]
	c["limit"] = !hasLim || (!amtNil && amt.Cmp(lim) <= 0)
	c["sr-unpaused"] = !m.SR
	c["body-fits"] = 132 <= m.MaxBody
	if withCaller {
		c["caller"] = len(caller) == 32 && !IsZero(caller)
	}
	// dependency behaviour; only meaningful when the request gets that far
	fromB := fromBytes(from)
	denom := m.L.norm(tok)
	pre := c["amount-positive"] && c["recipient"] && ok && c["token"] && c["bm-unpaused"] && c["limit"] && (!withCaller || (len(caller) != 0 && !(len(caller) == 32 && IsZero(caller))))
	canPay, burnOK := true, true
	if pre {
		f0 := tx.nextFault()
		canPay = !f0 && !(m.L.Paused && denom == m.L.NDenom()) && !m.L.BL[Hex(fromB)] && !m.L.BL[Hex(ModuleAddrBytes())] && m.L.bal(balKey(fromB, denom)).Cmp(amt) >= 0
		if canPay {
			f1 := tx.nextFault()
			burnOK = !f1 && m.L.Minter && !m.L.BL[Hex(ModuleAddrBytes())] && denom == m.L.NDenom() && !m.L.Paused
		}
	}
	c["can-pay"] = canPay
	c["burn-ok"] = burnOK
	var why []string
	for _, k := range sortedKeys(c) {
		if !c[k] {
			why = append(why, k)
		}
	}
	if len(why) > 0 {
		return &Expect{V: MustFail, Why: why, Conds: c}
	}
	n := m.Next
	a := new(big.Int).Set(amt)
	burn, _ := refcodec.EncodeBurn(&refcodec.Burn{Version: 0, BurnToken: attest.Keccak([]byte(strings.ToLower(tok))), MintRecip: mr, Amount: a, MsgSender: Pad32(fromB)})
	cl := caller
	if !withCaller {
		cl = make([]byte, 32)
	}
	mod := ModuleAddr()
	return &Expect{V: MustSucceed, Conds: c, Nonce: &n, Writes: []string{nonceKey},
		Sent: []ExpMsg{{Dest: dest, Nonce: n, Sender: Pad32(ModuleAddrBytes()), Recip: msgr, Caller: cl, Body: burn}},
		Calls: []ExpCall{{Kind: "transfer", From: from, To: mod, Denom: tok, Amount: a}, {Kind: "burn", From: mod, Denom: tok, Amount: a}},
		apply: func(m *Model) {
			m.Next++
			k := balKey(fromB, denom)
			m.L.Bal[k] = new(big.Int).Sub(m.L.bal(k), a)
			m.L.Supply[denom] = new(big.Int).Sub(m.L.sup(denom), a)
			m.L.Burned = new(big.Int).Add(m.L.Burned, a)
		}}
}

func sortedKeys(c map[string]bool) []string {
	var ks []string
	for k := range c {
		ks = append(ks, k)
	}
	sort.Strings(ks)
	return ks
}

// AttestationValid consults the independent reference verifier under the
// model's current attesters and threshold.
func (m *Model) AttestationValid(message, att []byte) attest.Verdict {
	return attest.Verify(message, att, m.AttesterList(), m.Thr)
}

func (m *Model) receive(x *types.MsgReceiveMessage, tx *TxCtx) *Expect {
	c := map[string]bool{}
	c["P1-sr-unpaused"] = !m.SR
	av := m.AttestationValid(x.Message, x.Attestation)
	c["P2-attestation"] = av.Accept
	unspec := av.Accept && !av.AllCanonicalV
	dm, err := refcodec.DecodeMessage(x.Message)
	c["P3-header"] = err == nil
	if err != nil {
		return &Expect{V: MustFail, Why: []string{"P3-header"}, Conds: c}
	}
	c["P4-dest-domain"] = dm.Dest == 4
	me := fromBytes(x.From)
	switch {
	case IsZero(dm.Caller):
		c["P7-caller"] = true
	case bytes.Equal(dm.Caller[12:], me) && IsZero(dm.Caller[:12]):
		c["P7-caller"] = true
	case bytes.Equal(dm.Caller[12:], me):
		c["P7-caller"] = true
		unspec = true // D2: high bytes non-zero, low 20 bytes match: not judged
	default:
		c["P7-caller"] = false
	}
	c["P5-version"] = dm.Version == 0
	up := UsedSpec{dm.Source, dm.Nonce}
	c["P6-nonce-unused"] = !m.Used[up]
	toModule := bytes.Equal(dm.Recip, Pad32(ModuleAddrBytes()))
	var exp Expect
	base := c["P1-sr-unpaused"] && c["P2-attestation"] && c["P4-dest-domain"] && c["P7-caller"] && c["P5-version"] && c["P6-nonce-unused"]
	var mintAmt *big.Int
	var mintTo []byte
	var mintDenom string
	if toModule {
		c["M1-bm-unpaused"] = !m.BM
		bm, berr := refcodec.DecodeBurn(dm.Body)
		c["M2-body-132"] = berr == nil
		if berr == nil {
			c["M3-burn-version"] = bm.Version == 0
			pe, okp := m.Pairs[pairKey(dm.Source, bm.BurnToken)]
			c["M5-pair"] = okp
			ms, okm := m.Msgrs[dm.Source]
			c["M4-messenger"] = okm && bytes.Equal(ms, dm.Sender)
			if base && c["M1-bm-unpaused"] && c["M3-burn-version"] && okp && c["M4-messenger"] {
				mintDenom = strings.ToLower(pe.Local)
				mintAmt = bm.Amount
				mintTo = bm.MintRecip[12:]
				f := tx.nextFault()
				c["M6-mint"] = !f && m.L.Minter && !m.L.BL[Hex(ModuleAddrBytes())] && !m.L.BL[Hex(mintTo)] &&
					m.L.norm(mintDenom) == m.L.NDenom() && sdk.ValidateDenom(mintDenom) == nil && mintAmt.Sign() > 0 && m.L.Allow.Cmp(mintAmt) >= 0 && !m.L.Paused
			}
		}
	}
	for _, k := range sortedKeys(c) {
		if !c[k] {
			exp.Why = append(exp.Why, k)
		}
	}
	exp.Conds = c
	if len(exp.Why) > 0 {
		exp.V = MustFail
		return &exp
	}
	exp.V = MustSucceed
	if unspec {
		exp.V = Unspecified
	}
	exp.Writes = []string{keyStr(types.UsedNonceKeyPrefix, types.UsedNonceKey(dm.Nonce, dm.Source))}
	if toModule {
		to := sdk.AccAddress(mintTo).String()
		exp.Calls = []ExpCall{{Kind: "mint", From: ModuleAddr(), To: to, Denom: mintDenom, Amount: mintAmt}}
	}
	exp.apply = func(m *Model) {
		m.Used[up] = true
		if toModule {
			d := m.L.norm(mintDenom)
			k := balKey(mintTo, d)
			m.L.Bal[k] = new(big.Int).Add(m.L.bal(k), mintAmt)
			m.L.Supply[d] = new(big.Int).Add(m.L.sup(d), mintAmt)
			m.L.Allow = new(big.Int).Sub(m.L.Allow, mintAmt)
			m.L.Minted = new(big.Int).Add(m.L.Minted, mintAmt)
		}
	}
	return &exp
}

func (m *Model) replace(from string, orig, att, newBody, newCaller []byte) *Expect {
	var nec, extra []string
	if m.SR {
		nec = append(nec, "sr-paused")
	}
	av := m.AttestationValid(orig, att)
	if !av.Accept {
		nec = append(nec, "attestation")
	}
	dm, err := refcodec.DecodeMessage(orig)
	if err != nil {
		nec = append(nec, "header")
		return &Expect{V: MustFail, Why: nec, NecFalse: nec}
	}
	if !bytes.Equal(dm.Sender, Pad32(fromBytes(from))) {
		nec = append(nec, "sender")
	}
	if dm.Source != 4 {
		nec = append(nec, "source-domain")
	}
	if len(nec) > 0 {
		return &Expect{V: MustFail, Why: nec, NecFalse: nec}
	}
	if uint64(len(newBody)) > m.MaxBody {
		extra = append(extra, "body-size")
	}
	if IsZero(dm.Recip) {
		extra = append(extra, "recipient-zero")
	}
	if len(newCaller) != 32 {
		extra = append(extra, "caller-length")
	}
	if len(extra) > 0 {
		return &Expect{V: MustFail, Soft: true, Why: extra}
	}
	e := &Expect{V: MustSucceed, Sent: []ExpMsg{{Dest: dm.Dest, Nonce: dm.Nonce, Sender: dm.Sender, Recip: dm.Recip, Caller: newCaller, Body: newBody}}}
	if !av.AllCanonicalV {
		e.V = Unspecified
	}
	return e
}

func (m *Model) replaceDeposit(x *types.MsgReplaceDepositForBurn) *Expect {
	var nec []string
	if m.BM {
		nec = append(nec, "bm-paused")
	}
	dm, err := refcodec.DecodeMessage(x.OriginalMessage)
	if err != nil {
		return &Expect{V: MustFail, Why: []string{"header"}, NecFalse: []string{"header"}}
	}
	bm, err := refcodec.DecodeBurn(dm.Body)
	if err != nil {
		return &Expect{V: MustFail, Why: []string{"burn-body"}, NecFalse: []string{"burn-body"}}
	}
	if !bytes.Equal(bm.MsgSender, Pad32(fromBytes(x.From))) {
		nec = append(nec, "depositor")
	}
	if len(x.NewMintRecipient) != 32 || IsZero(x.NewMintRecipient) {
		nec = append(nec, "mint-recipient")
	}
	if len(nec) > 0 {
		return &Expect{V: MustFail, Why: nec, NecFalse: nec}
	}
	nb, _ := refcodec.EncodeBurn(&refcodec.Burn{Version: bm.Version, BurnToken: bm.BurnToken, MintRecip: x.NewMintRecipient, Amount: bm.Amount, MsgSender: bm.MsgSender})
	inner := m.replace(ModuleAddr(), x.OriginalMessage, x.OriginalAttestation, nb, x.NewDestinationCaller)
	return inner
}
