package sim

import (
	"encoding/json"
	"fmt"
	"math/big"
	"reflect"
	"strings"

	abci "github.com/cometbft/cometbft/abci/types"
	sdk "github.com/cosmos/cosmos-sdk/types"
	"github.com/cosmos/gogoproto/proto"

	"github.com/circlefin/noble-cctp/x/cctp/types"

	"verif/harness/chain"
	"verif/harness/refcodec"
)

// LedgerOp is a harness-side change of the dependency's state between blocks
// (the bank / fiat-token-factory are outside the module; their owners can pause,
// blacklist, fund accounts and change the minter allowance at any time).
type LedgerOp struct {
	What   string `json:"what"` // pause|unpause|blacklist|unblacklist|allowance|fund|minter|nominter
	Addr   string `json:"addr,omitempty"`
	Denom  string `json:"denom,omitempty"`
	Amount string `json:"amount,omitempty"`
}

// Op is one recorded operation of a case. It is plain data: the JSON form is
// the replay format.
type Op struct {
	Kind   string            `json:"kind"` // tx | raw | ledger
	Msgs   []json.RawMessage `json:"msgs,omitempty"`
	Raw    string            `json:"raw,omitempty"` // hex transaction bytes (kind raw)
	Fault  []int             `json:"fault,omitempty"`
	Ledger *LedgerOp         `json:"ledger,omitempty"`
	Label  string            `json:"label,omitempty"`
	Meta   map[string]string `json:"meta,omitempty"`
	Join   bool              `json:"join,omitempty"` // same block as the previous op

	msgs []sdk.Msg
}

// TxOp builds a transaction op from messages.
func TxOp(label string, msgs ...sdk.Msg) *Op {
	return &Op{Kind: "tx", Label: label, msgs: msgs}
}

func (o *Op) WithFault(ords ...int) *Op { o.Fault = ords; return o }
func (o *Op) WithMeta(k, v string) *Op {
	if o.Meta == nil {
		o.Meta = map[string]string{}
	}
	o.Meta[k] = v
	return o
}

// Finalize fills the JSON form from the in-memory messages.
func (o *Op) Finalize() {
	if o.Kind == "tx" && o.Msgs == nil {
		for _, m := range o.msgs {
			bz, err := chain.Codec().MarshalInterfaceJSON(m)
			if err != nil {
				panic(err)
			}
			o.Msgs = append(o.Msgs, bz)
		}
	}
}

// Resolve fills the in-memory messages from the JSON form.
func (o *Op) Resolve() error {
	if o.Kind == "tx" && o.msgs == nil {
		for _, raw := range o.Msgs {
			var m sdk.Msg
			if err := chain.Codec().UnmarshalInterfaceJSON(raw, &m); err != nil {
				return err
			}
			o.msgs = append(o.msgs, m)
		}
	}
	return nil
}

func (o *Op) SdkMsgs() []sdk.Msg { return o.msgs }

// Case is a complete, replayable test case.
type Case struct {
	Property string   `json:"property"`
	Gen      *GenSpec `json:"genesis"`
	Ops      []*Op    `json:"ops"`
}

// SentMsg is a decoded MessageSent event.
type SentMsg struct {
	Step  int
	Bytes []byte
	Msg   *refcodec.Message
	Burn  *refcodec.Burn // non-nil if the body is a 132-byte burn message
	By    string         // submitter of the transaction
	Kind  string         // send|sendc|dep|depc|replace|repdep
}

// Step is everything observed about one executed op.
type Step struct {
	Idx     int
	Op      *Op
	Msgs    []sdk.Msg
	Res     chain.TxResult
	Exp     *Expect
	Pre     *Model
	Calls   []chain.Call
	Writes  []chain.Write
	Single  bool // alone in its block: Pre*/Post* dumps are per-transaction
	PreKV   []string
	PostKV  []string
	PreLed  []string
	PostLed []string
	Sent    []SentMsg
	Events  []proto.Message
	RawEv   []abci.Event
}

func (s *Step) OK() bool { return s.Res.Code == 0 }

// World runs a case against the real chain and the reference model.
type World struct {
	Gen   *GenSpec
	Chain *chain.Chain
	Model *Model
	Steps []*Step
	Sent  []SentMsg // all outbound messages so far
	// Divergences between observed outcomes and model verdicts (information only).
	Div []string
	// Scratch is per-case generator memory (e.g. attestations signed earlier).
	Scratch map[string]any
	// Restarts counts genesis round trips; RestartLostPending those that lost a pending owner (F3).
	Restarts, RestartLostPending int
}

func NewWorld(g *GenSpec) (*World, error) { return NewWorldDec(g, nil) }

// NewWorldDec: as NewWorld, with the chain's transaction decoder wrapped.
func NewWorldDec(g *GenSpec, wrap func(sdk.TxDecoder) sdk.TxDecoder) (*World, error) {
	cg := g.ChainGenesis()
	cg.WrapDecoder = wrap
	c, err := chain.New(cg)
	if err != nil {
		return nil, err
	}
	return &World{Gen: g, Chain: c, Model: NewModel(g)}, nil
}

func (w *World) ApplyLedgerOp(lo *LedgerOp) {
	s := w.Chain.LedgerStore()
	l := w.Chain.Ledger
	var addr []byte
	if lo.Addr != "" {
		addr = sdk.MustAccAddressFromBech32(lo.Addr)
	}
	m := &w.Model.L
	switch lo.What {
	case "pause":
		l.AdminSetPaused(s, true)
		m.Paused = true
	case "unpause":
		l.AdminSetPaused(s, false)
		m.Paused = false
	case "blacklist":
		l.AdminSetBlacklisted(s, addr, true)
		m.BL[Hex(addr)] = true
	case "unblacklist":
		l.AdminSetBlacklisted(s, addr, false)
		delete(m.BL, Hex(addr))
	case "allowance":
		l.AdminSetAllowance(s, Big(lo.Amount))
		m.Allow = Big(lo.Amount)
	case "minter":
		l.AdminSetMinter(s, true)
		m.Minter = true
	case "nominter":
		l.AdminSetMinter(s, false)
		m.Minter = false
	case "fund":
		d := m.norm(lo.Denom)
		l.AdminFund(s, addr, d, Big(lo.Amount))
		k := balKey(addr, d)
		m.Bal[k] = new(big.Int).Add(m.bal(k), Big(lo.Amount))
		m.Supply[d] = new(big.Int).Add(m.sup(d), Big(lo.Amount))
	default:
		panic("unknown ledger op " + lo.What)
	}
}

// Restart exports the module's genesis, initialises a fresh chain from it and carries the
// dependency's (ledger) store over verbatim: a chain upgrade / genesis round trip in the middle of a
// history. The pending-owner slot has no genesis field (known finding F3): the model follows the chain
// there and the loss is counted.
// Restart takes the chain through a genesis round trip. drop names optional scalar fields
// ("maxbody", "nextnonce", "threshold") that are left out of the genesis file when the exported value
// equals the documented default (8000, 0, 1): the file then says the same thing in fewer words.
func (w *World) Restart(drop ...string) error {
	raw, err := w.Chain.ExportJSON()
	if err != nil {
		return err
	}
	if len(drop) > 0 {
		var gs types.GenesisState
		if err := chain.Codec().UnmarshalJSON(raw, &gs); err != nil {
			return err
		}
		for _, d := range drop {
			switch {
			case d == "maxbody" && gs.MaxMessageBodySize != nil && gs.MaxMessageBodySize.Amount == 8000:
				gs.MaxMessageBodySize = nil
			case d == "nextnonce" && gs.NextAvailableNonce != nil && gs.NextAvailableNonce.Nonce == 0 && gs.NextAvailableNonce.SourceDomain == 0:
				gs.NextAvailableNonce = nil
			case d == "threshold" && gs.SignatureThreshold != nil && gs.SignatureThreshold.Amount == 1:
				gs.SignatureThreshold = nil
			}
		}
		if raw, err = chain.Codec().MarshalJSON(&gs); err != nil {
			return err
		}
	}
	dump := w.Chain.RawKV(w.Chain.LedgKey)
	c2, err := chain.New(chain.Genesis{Cctp: raw, Ledger: chain.LedgerGenesis{MintingDenom: w.Model.L.Denom}})
	if err != nil {
		return err
	}
	s := c2.LedgerStore()
	var old [][]byte
	it := s.Iterator(nil, nil)
	for ; it.Valid(); it.Next() {
		old = append(old, append([]byte{}, it.Key()...))
	}
	it.Close()
	for _, k := range old {
		s.Delete(k)
	}
	for _, kv := range dump {
		i := strings.IndexByte(kv, '=')
		s.Set(UnHex(kv[:i]), UnHex(kv[i+1:]))
	}
	c2.DeliverBlock(nil)
	w.Chain = c2
	w.Restarts++
	if w.Model.Pending != nil {
		w.Model.Pending = nil
		w.RestartLostPending++
	}
	return nil
}

// Exec executes one op in its own block.
func (w *World) Exec(op *Op) *Step { return w.ExecBlock([]*Op{op})[0] }

// ExecBlock executes ops (ledger ops first applied in order, transactions in one block).
func (w *World) ExecBlock(ops []*Op) []*Step {
	var steps []*Step
	var raws [][]byte
	var txSteps []*Step
	for _, op := range ops {
		st := &Step{Idx: len(w.Steps) + len(steps), Op: op}
		steps = append(steps, st)
		switch op.Kind {
		case "restart":
			var drop []string
			if d := op.Meta["drop"]; d != "" {
				drop = strings.Split(d, ",")
			}
			if err := w.Restart(drop...); err != nil {
				panic(fmt.Errorf("restart: %w", err))
			}
		case "ledger":
			// applied before the block's transactions
			w.ApplyLedgerOp(op.Ledger)
		case "tx":
			if err := op.Resolve(); err != nil {
				panic(err)
			}
			st.Msgs = op.msgs
			bz, err := w.Chain.EncodeTx(op.msgs)
			if err != nil {
				panic(fmt.Errorf("encode: %w", err))
			}
			raws = append(raws, bz)
			txSteps = append(txSteps, st)
		case "raw":
			raws = append(raws, UnHex(op.Raw))
			txSteps = append(txSteps, st)
		default:
			panic("unknown op kind " + op.Kind)
		}
	}
	single := len(txSteps) == 1
	var preKV, preLed []string
	if single {
		preKV = w.Chain.RawKV(w.Chain.CctpKey)
		preLed = w.Chain.RawKV(w.Chain.LedgKey)
	}
	for i, st := range txSteps {
		if len(st.Op.Fault) > 0 {
			w.Chain.Ledger.SetFaults(chain.TagOf(raws[i]), st.Op.Fault)
		}
	}
	var results []chain.TxResult
	if len(raws) > 0 || len(ops) > 0 {
		results = w.Chain.DeliverBlock(raws)
	}
	for i, st := range txSteps {
		st.Res = results[i]
		st.Single = single
		st.Calls = w.Chain.Ledger.CallsOf(st.Res.Tag)
		st.Writes = w.Chain.Rec.WritesOf(st.Res.Tag)
		if single {
			st.PreKV, st.PreLed = preKV, preLed
			st.PostKV = w.Chain.RawKV(w.Chain.CctpKey)
			st.PostLed = w.Chain.RawKV(w.Chain.LedgKey)
		}
		if st.Op.Kind == "raw" {
			// decode for the model if possible
			if tx, err := w.Chain.TxCfg.TxDecoder()(UnHex(st.Op.Raw)); err == nil {
				st.Msgs = tx.GetMsgs()
			}
		}
		w.observe(st)
	}
	w.Steps = append(w.Steps, steps...)
	return steps
}

// observe decodes events, computes the model's expectation in the pre-state and
// advances the model with the observed outcome.
func (w *World) observe(st *Step) {
	st.Pre = w.Model.Clone()
	st.RawEv = st.Res.Events
	for _, ev := range st.Res.Events {
		if pm, err := sdk.ParseTypedEvent(ev); err == nil {
			st.Events = append(st.Events, pm)
			if ms, ok := pm.(*types.MessageSent); ok {
				sm := SentMsg{Step: st.Idx, Bytes: ms.Message}
				if dm, err := refcodec.DecodeMessage(ms.Message); err == nil {
					sm.Msg = dm
					if b, err := refcodec.DecodeBurn(dm.Body); err == nil {
						sm.Burn = b
					}
				}
				st.Sent = append(st.Sent, sm)
			}
		}
	}
	// expectation: sequential over the messages of the transaction
	if st.Msgs != nil {
		tx := &TxCtx{Faults: map[int]bool{}}
		for _, f := range st.Op.Fault {
			tx.Faults[f%chain.PanicFaultBase] = true // (a call that panics fails just as one that returns an error)
		}
		sim := w.Model.Clone()
		comb := &Expect{V: MustSucceed}
		var applies []*Expect
		for _, msg := range st.Msgs {
			e := sim.Predict(msg, tx)
			applies = append(applies, e)
			if len(st.Msgs) == 1 {
				comb = e
				break
			}
			if e.V == MustFail {
				comb = &Expect{V: MustFail, Why: e.Why, Soft: e.Soft, NecFalse: e.NecFalse}
				break
			}
			if e.V == Unspecified {
				comb.V = Unspecified
			}
			comb.Sent = append(comb.Sent, e.Sent...)
			comb.Calls = append(comb.Calls, e.Calls...)
			comb.Writes = append(comb.Writes, e.Writes...)
			e.Apply(sim)
		}
		st.Exp = comb
		if st.OK() {
			for _, e := range applies {
				e.Apply(w.Model)
			}
			if comb.V == MustFail {
				w.Div = append(w.Div, fmt.Sprintf("step %d succeeded, model says must fail (%v)", st.Idx, comb.Why))
			}
		} else if comb.V == MustSucceed {
			w.Div = append(w.Div, fmt.Sprintf("step %d failed (%s), model says must succeed", st.Idx, st.Res.Log))
		}
	}
	// register outbound messages
	if st.OK() && len(st.Msgs) > 0 {
		for i := range st.Sent {
			st.Sent[i].By = fromOf(st.Msgs[0])
			st.Sent[i].Kind = kindOf(st.Msgs[minInt(i, len(st.Msgs)-1)])
		}
		w.Sent = append(w.Sent, st.Sent...)
	}
}

func minInt(a, b int) int {
	if a < b {
		return a
	}
	return b
}

func kindOf(m sdk.Msg) string {
	switch m.(type) {
	case *types.MsgSendMessage:
		return "send"
	case *types.MsgSendMessageWithCaller:
		return "sendc"
	case *types.MsgDepositForBurn:
		return "dep"
	case *types.MsgDepositForBurnWithCaller:
		return "depc"
	case *types.MsgReplaceMessage:
		return "replace"
	case *types.MsgReplaceDepositForBurn:
		return "repdep"
	case *types.MsgReceiveMessage:
		return "recv"
	}
	return "admin"
}

// fromOf extracts the submitter field.
func fromOf(m sdk.Msg) string {
	type hasFrom interface{ GetFrom() string }
	if f, ok := m.(hasFrom); ok {
		return f.GetFrom()
	}
	v := reflect.ValueOf(m)
	if v.Kind() == reflect.Ptr && !v.IsNil() {
		if f := v.Elem().FieldByName("From"); f.IsValid() && f.Kind() == reflect.String {
			return f.String()
		}
	}
	return ""
}

// FromOf is exported for checks.
func FromOf(m sdk.Msg) string { return fromOf(m) }
func KindOf(m sdk.Msg) string { return kindOf(m) }

// Finalize makes every op of the case serialisable.
func (c *Case) Finalize() {
	for _, o := range c.Ops {
		o.Finalize()
	}
}
