package attest

import (
	"bytes"
	"testing"

	"github.com/ethereum/go-ethereum/crypto"
)

func TestSelf(t *testing.T) {
	msg := []byte("hello")
	ks := []*Key{K(0), K(1), K(2)}
	for _, st := range []SigStyle{{}, {Legacy: true}, {Twin: true}, {Twin: true, Legacy: true}} {
		att := Attest(msg, ks, st)
		strs := []string{ks[0].Spelling(0), ks[1].Spelling(5), ks[2].Spelling(2)}
		v := Verify(msg, att, strs, 3)
		if !v.Accept || v.Distinct != 3 {
			t.Fatalf("%+v %+v", st, v)
		}
		// cross-check recovery with go-ethereum
		sig := append([]byte{}, att[:65]...)
		if sig[64] >= 27 {
			sig[64] -= 27
		}
		pub, err := crypto.Ecrecover(Keccak(msg), sig)
		p2, ok := Recover(Keccak(msg), att[:65])
		if err != nil || !ok || !bytes.Equal(pub, p2) {
			t.Fatalf("recover mismatch %v %v", err, ok)
		}
	}
	if !bytes.Equal(Keccak(msg), crypto.Keccak256(msg)) {
		t.Fatal("keccak")
	}
	if !bytes.Equal(K(3).Addr, crypto.PubkeyToAddress(K(3).Priv.PublicKey).Bytes()) {
		t.Fatal("addr")
	}
}
