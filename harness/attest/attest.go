// Package attest is the harness' attestation service (a deterministic universe
// of secp256k1 attester keys with several signing styles) and an independent
// reference verifier of the four attestation rules.
package attest

import (
	"bytes"
	"crypto/ecdsa"
	"crypto/sha256"
	"encoding/hex"
	"fmt"
	"math/big"
	"sort"
	"strings"
	"sync"

	dsecp "github.com/decred/dcrd/dcrec/secp256k1/v4"
	decdsa "github.com/decred/dcrd/dcrec/secp256k1/v4/ecdsa"
	"github.com/ethereum/go-ethereum/crypto"
	"golang.org/x/crypto/sha3"
)

// Key is one member of the universe.
type Key struct {
	Idx  int
	Priv *ecdsa.PrivateKey
	Pub  []byte // 65 bytes, 0x04 || X || Y
	Addr []byte // 20 bytes
}

var (
	mu    sync.Mutex
	cache = map[int]*Key{}
)

var curveN, _ = new(big.Int).SetString("fffffffffffffffffffffffffffffffebaaedce6af48a03bbfd25e8cd0364141", 16)

// lambda is the scalar of secp256k1's efficient endomorphism: lambda*(x,y) = (beta*x, y).
var lambda, _ = new(big.Int).SetString("5363ad4cc05c30e0a5261c028812645a122e22ea20816678df02967c1b23bd72", 16)

// RelatedBase is the first index of the "related keys": for universe key i, index RelatedBase+3i is
// its negation n-d (same X, other Y), RelatedBase+3i+1 and +2 are lambda*d and lambda^2*d (same Y, other X).
// They are never enabled anywhere; a verifier that compares keys by one coordinate accepts them.
const RelatedBase = 1000

// K returns key i of the universe: priv = keccak("verif-attester"||i) mod n.
func K(i int) *Key {
	if i >= RelatedBase {
		base, kind := (i-RelatedBase)/3, (i-RelatedBase)%3
		d0 := new(big.Int).Set(K(base).Priv.D)
		mu.Lock()
		defer mu.Unlock()
		if k, ok := cache[i]; ok {
			return k
		}
		var d *big.Int
		switch kind {
		case 0:
			d = new(big.Int).Sub(curveN, d0)
		case 1:
			d = new(big.Int).Mod(new(big.Int).Mul(d0, lambda), curveN)
		default:
			d = new(big.Int).Mod(new(big.Int).Mul(d0, new(big.Int).Mul(lambda, lambda)), curveN)
		}
		return mk(i, d)
	}
	mu.Lock()
	defer mu.Unlock()
	if k, ok := cache[i]; ok {
		return k
	}
	d := new(big.Int).SetBytes(Keccak([]byte(fmt.Sprintf("verif-attester%d", i))))
	d.Mod(d, new(big.Int).Sub(curveN, big.NewInt(1)))
	d.Add(d, big.NewInt(1))
	return mk(i, d)
}

func mk(i int, d *big.Int) *Key {
	priv, err := crypto.ToECDSA(leftPad(d.Bytes(), 32))
	if err != nil {
		panic(err)
	}
	pub := crypto.FromECDSAPub(&priv.PublicKey)
	k := &Key{Idx: i, Priv: priv, Pub: pub, Addr: Keccak(pub[1:])[12:]}
	cache[i] = k
	return k
}

func leftPad(b []byte, n int) []byte {
	if len(b) >= n {
		return b
	}
	out := make([]byte, n)
	copy(out[n-len(b):], b)
	return out
}

// Keccak is legacy Keccak-256 from x/crypto (not go-ethereum's wrapper).
func Keccak(b []byte) []byte {
	h := sha3.NewLegacyKeccak256()
	h.Write(b)
	return h.Sum(nil)
}

// Spelling renders the public key as one of the hex spellings the module accepts.
//   0 lower, no prefix      1 lower, 0x       2 upper hex digits, 0x
//   3 mixed case, no prefix 4 0X prefix lower 5 odd length (leading zero nibble dropped: "4ab…")
func (k *Key) Spelling(style int) string {
	h := hex.EncodeToString(k.Pub)
	switch style % 6 {
	case 0:
		return h
	case 1:
		return "0x" + h
	case 2:
		return "0x" + strings.ToUpper(h)
	case 3:
		var sb strings.Builder
		for i, c := range h {
			if i%2 == 0 {
				sb.WriteString(strings.ToUpper(string(c)))
			} else {
				sb.WriteRune(c)
			}
		}
		return sb.String()
	case 4:
		return "0X" + h
	default:
		return h[1:] // "04ab" -> "4ab": odd length, FromHex pads a leading zero
	}
}

// SigStyle selects how a signature is encoded.
type SigStyle struct {
	Legacy bool `json:"legacy,omitempty"` // v = 27/28 instead of 0/1
	Twin   bool `json:"twin,omitempty"`   // high-s twin (r, n-s, v^1)
}

// Sign signs keccak(message) with key k.
func Sign(message []byte, k *Key, st SigStyle) []byte { return SignDigest(Keccak(message), k, st) }

// DerivedDigest: 32-byte values that are NOT the Keccak-256 digest of the message but that a signing back end could
// plausibly produce from it (EIP-191 wrappers, other hash functions, a second hashing round). A signature over one
// of them is a signature "over other bytes".
func DerivedDigest(kind string, message []byte) []byte {
	switch kind {
	case "eip191": // personal_sign of the digest
		return Keccak(append([]byte("\x19Ethereum Signed Message:\n32"), Keccak(message)...))
	case "eip191msg": // personal_sign of the message itself
		return Keccak(append([]byte(fmt.Sprintf("\x19Ethereum Signed Message:\n%d", len(message))), message...))
	case "sha256":
		d := sha256.Sum256(message)
		return d[:]
	case "sha3": // NIST SHA3-256 (other padding than legacy Keccak)
		d := sha3.Sum256(message)
		return d[:]
	case "keccak2":
		return Keccak(Keccak(message))
	case "keccakhex":
		return Keccak([]byte("0x" + hex.EncodeToString(message)))
	}
	panic("unknown derived digest " + kind)
}

// DerivedKinds lists the kinds DerivedDigest knows.
var DerivedKinds = []string{"eip191", "eip191msg", "sha256", "sha3", "keccak2", "keccakhex"}

// SignDigest signs a 32-byte digest as it is.
func SignDigest(digest []byte, k *Key, st SigStyle) []byte {
	sig, err := crypto.Sign(digest, k.Priv)
	if err != nil {
		panic(err)
	}
	if st.Twin {
		s := new(big.Int).SetBytes(sig[32:64])
		s.Sub(curveN, s)
		copy(sig[32:64], leftPad(s.Bytes(), 32))
		sig[64] ^= 1
	}
	if st.Legacy {
		sig[64] += 27
	}
	return sig
}

// SortByAddr sorts keys by ascending Ethereum-style address.
func SortByAddr(ks []*Key) {
	sort.Slice(ks, func(i, j int) bool { return bytes.Compare(ks[i].Addr, ks[j].Addr) < 0 })
}

// Attest builds the honest attestation of message by the given keys (sorted here).
func Attest(message []byte, ks []*Key, st SigStyle) []byte {
	ks = append([]*Key(nil), ks...)
	SortByAddr(ks)
	var out []byte
	for _, k := range ks {
		out = append(out, Sign(message, k, st)...)
	}
	return out
}

// ---- reference verifier ----------------------------------------------------------

// ParseSpelling is the reference's own reading of an attester string: optional
// 0x/0X prefix, odd length padded with a leading zero nibble, hex digits of
// either case. ok=false for anything else.
func ParseSpelling(s string) (bz []byte, ok bool) {
	if len(s) >= 2 && s[0] == '0' && (s[1] == 'x' || s[1] == 'X') {
		s = s[2:]
	}
	if len(s)%2 == 1 {
		s = "0" + s
	}
	out := make([]byte, 0, len(s)/2)
	nib := func(c byte) (byte, bool) {
		switch {
		case c >= '0' && c <= '9':
			return c - '0', true
		case c >= 'a' && c <= 'f':
			return c - 'a' + 10, true
		case c >= 'A' && c <= 'F':
			return c - 'A' + 10, true
		}
		return 0, false
	}
	for i := 0; i < len(s); i += 2 {
		a, ok1 := nib(s[i])
		b, ok2 := nib(s[i+1])
		if !ok1 || !ok2 {
			return nil, false
		}
		out = append(out, a<<4|b)
	}
	return out, true
}

// Recover recovers the 65-byte uncompressed key from a 65-byte [R||S||V]
// signature over digest with decred's pure-Go implementation. v is taken after
// 27/28 normalisation; ok=false if not recoverable.
func Recover(digest, sig []byte) (pub []byte, ok bool) {
	if len(sig) != 65 {
		return nil, false
	}
	v := sig[64]
	if v == 27 || v == 28 {
		v -= 27
	}
	if v > 3 {
		return nil, false
	}
	compact := make([]byte, 65)
	compact[0] = 27 + v
	copy(compact[1:], sig[:64])
	pk, _, err := decdsa.RecoverCompact(compact, digest)
	if err != nil {
		return nil, false
	}
	return pk.SerializeUncompressed(), true
}

var _ = dsecp.PrivKeyBytesLen

// Verdict of the reference verifier.
type Verdict struct {
	Accept bool
	Reason string
	// Distinct is the number of distinct enabled attesters with a recoverable
	// 65-byte-aligned signature over keccak(message) anywhere in the attestation.
	Distinct int
	// AllCanonicalV: every signature byte 64 is in {0,1,27,28}.
	AllCanonicalV bool
}

// Verify applies the four rules of spec/02_messages.md#valid-attestation.
func Verify(message, attestation []byte, attesters []string, threshold uint32) Verdict {
	digest := Keccak(message)
	enabled := map[string]bool{}
	for _, a := range attesters {
		if bz, ok := ParseSpelling(a); ok && len(bz) == 65 {
			enabled[string(bz)] = true
		}
	}
	v := Verdict{AllCanonicalV: true}
	seen := map[string]bool{}
	for i := 0; i+65 <= len(attestation); i += 65 {
		sig := attestation[i : i+65]
		if b := sig[64]; !(b == 0 || b == 1 || b == 27 || b == 28) {
			v.AllCanonicalV = false
		}
		if pub, ok := Recover(digest, sig); ok && enabled[string(pub)] {
			seen[string(pub)] = true
		}
	}
	v.Distinct = len(seen)
	if threshold == 0 {
		v.Reason = "threshold 0"
		return v
	}
	if uint64(len(attestation)) != 65*uint64(threshold) {
		v.Reason = "length"
		return v
	}
	var prev []byte
	for i := 0; i < int(threshold); i++ {
		sig := attestation[i*65 : i*65+65]
		pub, ok := Recover(digest, sig)
		if !ok {
			v.Reason = fmt.Sprintf("sig %d not recoverable", i)
			return v
		}
		addr := Keccak(pub[1:])[12:]
		if prev != nil && bytes.Compare(prev, addr) >= 0 {
			v.Reason = fmt.Sprintf("sig %d order/dupe", i)
			return v
		}
		if !enabled[string(pub)] {
			v.Reason = fmt.Sprintf("sig %d not an attester", i)
			return v
		}
		prev = addr
	}
	v.Accept = true
	return v
}
