package chain

import (
	"time"
	"context"
	"crypto/sha256"
	"encoding/hex"
	"encoding/json"
	"fmt"
	"sync"

	corestore "cosmossdk.io/core/store"
	"cosmossdk.io/log"
	storetypes "cosmossdk.io/store/types"
	"cosmossdk.io/x/tx/signing"
	abci "github.com/cometbft/cometbft/abci/types"
	cmtproto "github.com/cometbft/cometbft/proto/tendermint/types"
	dbm "github.com/cosmos/cosmos-db"
	"github.com/cosmos/cosmos-sdk/baseapp"
	"github.com/cosmos/cosmos-sdk/client"
	"github.com/cosmos/cosmos-sdk/codec"
	"github.com/cosmos/cosmos-sdk/codec/address"
	codectypes "github.com/cosmos/cosmos-sdk/codec/types"
	"github.com/cosmos/cosmos-sdk/runtime"
	sdk "github.com/cosmos/cosmos-sdk/types"
	"github.com/cosmos/cosmos-sdk/types/module"
	authtx "github.com/cosmos/cosmos-sdk/x/auth/tx"
	"github.com/cosmos/gogoproto/proto"

	cctp "github.com/circlefin/noble-cctp/x/cctp"
	"github.com/circlefin/noble-cctp/x/cctp/keeper"
	"github.com/circlefin/noble-cctp/x/cctp/types"
)

const ChainID = "verif-1"

// Prefix is the bech32 account prefix of the process (SDK global state).
var Prefix = "noble"

var cfgOnce sync.Once

// SetupSDK fixes the process-global SDK configuration.
func SetupSDK() {
	cfgOnce.Do(func() {
		cfg := sdk.GetConfig()
		cfg.SetBech32PrefixForAccount(Prefix, Prefix+"pub")
		sdk.SetAddrCacheEnabled(false)
	})
}

// TxTag identifies the transaction a context belongs to ("" outside of one).
func TxTag(ctx sdk.Context) string {
	bz := ctx.TxBytes()
	if len(bz) == 0 {
		return ""
	}
	h := sha256.Sum256(bz)
	return hex.EncodeToString(h[:8])
}

func TagOf(txBytes []byte) string {
	h := sha256.Sum256(txBytes)
	return hex.EncodeToString(h[:8])
}

// ---- write-set recorder --------------------------------------------------------

type Write struct {
	Tx  string
	Op  string // "set" | "del"
	Key string // raw key as string
}

type Recorder struct {
	inner corestore.KVStoreService
	mu    sync.Mutex
	log   []Write
}

func (r *Recorder) OpenKVStore(ctx context.Context) corestore.KVStore {
	tag := TxTag(sdk.UnwrapSDKContext(ctx))
	return &recStore{KVStore: r.inner.OpenKVStore(ctx), r: r, tag: tag}
}

func (r *Recorder) WritesOf(tag string) []Write {
	r.mu.Lock()
	defer r.mu.Unlock()
	var out []Write
	for _, w := range r.log {
		if w.Tx == tag {
			out = append(out, w)
		}
	}
	return out
}

func (r *Recorder) Reset() {
	r.mu.Lock()
	r.log = nil
	r.mu.Unlock()
}

type recStore struct {
	corestore.KVStore
	r   *Recorder
	tag string
}

func (s *recStore) Set(k, v []byte) error {
	s.r.mu.Lock()
	s.r.log = append(s.r.log, Write{Tx: s.tag, Op: "set", Key: string(k)})
	s.r.mu.Unlock()
	return s.KVStore.Set(k, v)
}

func (s *recStore) Delete(k []byte) error {
	s.r.mu.Lock()
	s.r.log = append(s.r.log, Write{Tx: s.tag, Op: "del", Key: string(k)})
	s.r.mu.Unlock()
	return s.KVStore.Delete(k)
}

// ---- the chain ------------------------------------------------------------------

type Genesis struct {
	Cctp   json.RawMessage `json:"cctp"`
	Ledger LedgerGenesis   `json:"ledger"`
	// WrapDecoder, when set, is applied to the chain's transaction decoder (C18 uses it to hand the *same* decoded
	// transaction objects to several executions).
	WrapDecoder func(sdk.TxDecoder) sdk.TxDecoder `json:"-"`
}

type Chain struct {
	gasMu     sync.Mutex
	gasLimits map[string]uint64
	App      *baseapp.BaseApp
	Keeper   *keeper.Keeper
	Module   cctp.AppModule
	Ledger   *Ledger
	Rec      *Recorder
	Cdc      codec.Codec
	TxCfg    client.TxConfig
	Registry codectypes.InterfaceRegistry
	CctpKey  *storetypes.KVStoreKey
	LedgKey  *storetypes.KVStoreKey
	Height   int64
	LastHash []byte
	txSeq    int
}

type encoding struct {
	reg   codectypes.InterfaceRegistry
	cdc   codec.Codec
	txCfg client.TxConfig
}

func makeEncoding() encoding {
	reg, err := codectypes.NewInterfaceRegistryWithOptions(codectypes.InterfaceRegistryOptions{
		ProtoFiles: proto.HybridResolver,
		SigningOptions: signing.Options{
			AddressCodec:          address.NewBech32Codec(Prefix),
			ValidatorAddressCodec: address.NewBech32Codec(Prefix + "valoper"),
		},
	})
	if err != nil {
		panic(err)
	}
	types.RegisterInterfaces(reg)
	cdc := codec.NewProtoCodec(reg)
	return encoding{reg: reg, cdc: cdc, txCfg: authtx.NewTxConfig(cdc, authtx.DefaultSignModes)}
}

// Header context of the blocks this process produces. A replay under another initial height, block time
// and proposer must give the same results: the module's behaviour is a function of its store and the
// transaction, not of where in the chain's life the block sits.
var (
	InitialHeight int64 = 1
	BlockTimeBase time.Time
	Proposer      []byte
)

// New builds a chain and runs InitChain with the given genesis. A panic of the
// module's InitGenesis is returned as an error.
func New(gen Genesis) (c *Chain, err error) {
	SetupSDK()
	enc := makeEncoding()
	dec := enc.txCfg.TxDecoder()
	if gen.WrapDecoder != nil {
		dec = gen.WrapDecoder(dec)
	}
	app := baseapp.NewBaseApp("verif", log.NewNopLogger(), dbm.NewMemDB(), dec, baseapp.SetChainID(ChainID))
	app.SetInterfaceRegistry(enc.reg)
	cctpKey := storetypes.NewKVStoreKey(types.StoreKey)
	ledgKey := storetypes.NewKVStoreKey("ledger")
	app.MountKVStores(map[string]*storetypes.KVStoreKey{types.StoreKey: cctpKey, "ledger": ledgKey})

	led := NewLedger(ledgKey)
	rec := &Recorder{inner: runtime.NewKVStoreService(cctpKey)}
	k := keeper.NewKeeper(enc.cdc, log.NewNopLogger(), rec, led, led)
	mod := cctp.NewAppModule(k)
	cfg := module.NewConfigurator(enc.cdc, app.MsgServiceRouter(), app.GRPCQueryRouter())
	mod.RegisterServices(cfg)

	c = &Chain{App: app, Keeper: k, Module: mod, Ledger: led, Rec: rec, Cdc: enc.cdc, TxCfg: enc.txCfg,
		Registry: enc.reg, CctpKey: cctpKey, LedgKey: ledgKey}

	app.SetInitChainer(func(ctx sdk.Context, req *abci.RequestInitChain) (*abci.ResponseInitChain, error) {
		var g Genesis
		if err := json.Unmarshal(req.AppStateBytes, &g); err != nil {
			return nil, err
		}
		if err := led.InitGenesis(ctx, g.Ledger); err != nil {
			return nil, err
		}
		mod.InitGenesis(ctx, enc.cdc, g.Cctp)
		return &abci.ResponseInitChain{}, nil
	})
	// no fee, signature or sequence checks (A1): the only thing the ante step does is install a gas limit for the
	// transactions a check asked for (by tag); everything else runs under the SDK's default unlimited meter
	app.SetAnteHandler(func(ctx sdk.Context, tx sdk.Tx, simulate bool) (sdk.Context, error) {
		if lim, ok := c.gasLimit(TxTag(ctx)); ok {
			return ctx.WithGasMeter(storetypes.NewGasMeter(lim)), nil
		}
		return ctx, nil
	})
	if err := app.LoadLatestVersion(); err != nil {
		return nil, err
	}
	bz, err := json.Marshal(gen)
	if err != nil {
		return nil, err
	}
	defer func() {
		if r := recover(); r != nil {
			c = nil
			err = fmt.Errorf("init panic: %v", r)
		}
	}()
	if _, err := app.InitChain(&abci.RequestInitChain{ChainId: ChainID, AppStateBytes: bz, InitialHeight: InitialHeight, Time: BlockTimeBase}); err != nil {
		return nil, err
	}
	// commit genesis as block 1 (empty)
	c.Height = InitialHeight - 1
	c.DeliverBlock(nil)
	return c, nil
}

// ValidateGenesis runs the module's own JSON validation path.
func ValidateGenesis(raw json.RawMessage) (err error) {
	SetupSDK()
	enc := encOnce()
	defer func() {
		if r := recover(); r != nil {
			err = fmt.Errorf("validate panic: %v", r)
		}
	}()
	return cctp.AppModuleBasic{}.ValidateGenesis(enc.cdc, enc.txCfg, raw)
}

var (
	sharedEnc     encoding
	sharedEncOnce sync.Once
)

func encOnce() encoding {
	sharedEncOnce.Do(func() { sharedEnc = makeEncoding() })
	return sharedEnc
}

// Codec returns a process-wide codec with the module's interfaces registered.
func Codec() codec.Codec { SetupSDK(); return encOnce().cdc }

// TxResult is the decoded outcome of one transaction.
type TxResult struct {
	Tag       string
	Code      uint32
	Codespace string
	Log       string
	Events    []abci.Event
	Resps     []proto.Message // decoded message responses (success only)
	Decoded   bool            // false if the tx bytes did not decode
	GasUsed   int64
}

func (r TxResult) OK() bool { return r.Code == 0 }

// Panicked reports whether the SDK's recovery middleware caught a panic.
func (r TxResult) Panicked() bool { return r.Code == 111222 }

// EncodeTx builds unsigned transaction bytes; the memo makes them unique.
func (c *Chain) EncodeTx(msgs []sdk.Msg) ([]byte, error) {
	c.txSeq++
	b := c.TxCfg.NewTxBuilder()
	if err := b.SetMsgs(msgs...); err != nil {
		return nil, err
	}
	b.SetMemo(fmt.Sprintf("tx#%d", c.txSeq))
	return c.TxCfg.TxEncoder()(b.GetTx())
}

// Simulate runs raw transaction bytes in the SDK's simulation mode against the last committed state (nothing is
// written) and reports whether it would succeed.
func (c *Chain) Simulate(raw []byte) (ok bool, log string) {
	tag := TagOf(raw)
	defer c.Ledger.ResetOrd(tag)
	_, res, err := c.App.Simulate(raw)
	if err != nil {
		return false, err.Error()
	}
	_ = res
	return true, ""
}

// SetGasLimit makes the transaction with the given tag run under a gas meter of that limit.
func (c *Chain) SetGasLimit(tag string, limit uint64) {
	c.gasMu.Lock()
	defer c.gasMu.Unlock()
	if c.gasLimits == nil {
		c.gasLimits = map[string]uint64{}
	}
	c.gasLimits[tag] = limit
}

func (c *Chain) gasLimit(tag string) (uint64, bool) {
	c.gasMu.Lock()
	defer c.gasMu.Unlock()
	l, ok := c.gasLimits[tag]
	return l, ok
}

func blockTime(h int64) time.Time {
	if BlockTimeBase.IsZero() {
		return BlockTimeBase
	}
	return BlockTimeBase.Add(time.Duration(h) * 6 * time.Second)
}

// DeliverBlock runs FinalizeBlock + Commit over raw transaction bytes.
func (c *Chain) DeliverBlock(txs [][]byte) []TxResult {
	c.Height++
	res, err := c.App.FinalizeBlock(&abci.RequestFinalizeBlock{Height: c.Height, Txs: txs, Time: blockTime(c.Height), ProposerAddress: Proposer})
	if err != nil {
		panic(fmt.Errorf("FinalizeBlock: %w", err))
	}
	if _, err := c.App.Commit(); err != nil {
		panic(fmt.Errorf("Commit: %w", err))
	}
	c.LastHash = res.AppHash
	out := make([]TxResult, len(txs))
	for i, tr := range res.TxResults {
		r := TxResult{Tag: TagOf(txs[i]), Code: tr.Code, Codespace: tr.Codespace, Log: tr.Log, Events: tr.Events, Decoded: true, GasUsed: tr.GasUsed}
		if tr.Code == 0 {
			var data sdk.TxMsgData
			if err := proto.Unmarshal(tr.Data, &data); err == nil {
				for _, any := range data.MsgResponses {
					var m sdk.Msg
					if err := c.Registry.UnpackAny(any, &m); err == nil {
						r.Resps = append(r.Resps, m)
					} else {
						// responses are registered through RegisterMsgServiceDesc
						if pm, err2 := c.Registry.Resolve(any.TypeUrl); err2 == nil {
							if err3 := proto.Unmarshal(any.Value, pm); err3 == nil {
								r.Resps = append(r.Resps, pm)
							}
						}
					}
				}
			}
		}
		out[i] = r
	}
	return out
}

// Deliver wraps each message list in its own transaction inside one block.
func (c *Chain) Deliver(txs ...[]sdk.Msg) ([]TxResult, []string) {
	var raw [][]byte
	var tags []string
	for _, msgs := range txs {
		bz, err := c.EncodeTx(msgs)
		if err != nil {
			panic(err)
		}
		raw = append(raw, bz)
		tags = append(tags, TagOf(bz))
	}
	return c.DeliverBlock(raw), tags
}

// Query runs a gRPC query through the real query router at the last committed height.
func (c *Chain) Query(method string, req proto.Message, resp proto.Message) (code uint32, logStr string) {
	var bz []byte
	if req != nil {
		var err error
		bz, err = proto.Marshal(req)
		if err != nil {
			panic(err)
		}
	}
	return c.QueryRaw(method, bz, resp)
}

func (c *Chain) QueryRaw(method string, bz []byte, resp proto.Message) (code uint32, logStr string) {
	r, err := c.App.Query(context.Background(), &abci.RequestQuery{Path: "/circle.cctp.v1.Query/" + method, Data: bz})
	if err != nil {
		return 1, err.Error()
	}
	if r.Code != 0 {
		return r.Code, r.Log
	}
	if resp != nil {
		if err := proto.Unmarshal(r.Value, resp); err != nil {
			return 2, "unmarshal: " + err.Error()
		}
	}
	return 0, ""
}

// CommittedCtx is a context over the committed multistore (not a branch).
func (c *Chain) CommittedCtx() sdk.Context {
	return c.App.NewUncachedContext(false, cmtproto.Header{ChainID: ChainID, Height: c.Height})
}

// Branch runs fn on a throw-away branch of the committed state.
func (c *Chain) Branch(tag string) sdk.Context {
	ctx, _ := c.CommittedCtx().CacheContext()
	return ctx.WithTxBytes([]byte(tag)).WithEventManager(sdk.NewEventManager())
}

// RawKV dumps a committed store.
func (c *Chain) RawKV(key *storetypes.KVStoreKey) []string {
	return DumpStore(c.CommittedCtx().KVStore(key))
}

// ExportJSON runs the module's ExportGenesis through its JSON path.
func (c *Chain) ExportJSON() (raw json.RawMessage, err error) {
	defer func() {
		if r := recover(); r != nil {
			err = fmt.Errorf("export panic: %v", r)
		}
	}()
	ctx, _ := c.CommittedCtx().CacheContext()
	return c.Module.ExportGenesis(ctx, c.Cdc), nil
}

func (c *Chain) Export() (*types.GenesisState, error) {
	raw, err := c.ExportJSON()
	if err != nil {
		return nil, err
	}
	var g types.GenesisState
	if err := c.Cdc.UnmarshalJSON(raw, &g); err != nil {
		return nil, err
	}
	return &g, nil
}

// LedgerStore gives direct access to the ledger's committed working set
// (harness-side mutations between blocks).
func (c *Chain) LedgerStore() storetypes.KVStore {
	return c.App.CommitMultiStore().GetKVStore(c.LedgKey)
}

// DecodeTx decodes raw transaction bytes with the process-wide encoding.
func DecodeTx(bz []byte) (sdk.Tx, error) { SetupSDK(); return encOnce().txCfg.TxDecoder()(bz) }
