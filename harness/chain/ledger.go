// Package chain runs the real noble-cctp module inside a real cosmos-sdk
// BaseApp, next to a stateful model of x/bank + fiat-token-factory (the
// "ledger") whose state lives in its own KV store of the same multistore, so
// that it is rolled back by the SDK together with the module's state.
package chain

import (
	sdkerrors "cosmossdk.io/errors"
	"context"
	"errors"
	"fmt"
	"math/big"
	"sort"
	"strings"
	"sync"

	sdkmath "cosmossdk.io/math"
	storetypes "cosmossdk.io/store/types"
	ftftypes "github.com/circlefin/noble-fiattokenfactory/x/fiattokenfactory/types"
	sdk "github.com/cosmos/cosmos-sdk/types"
	"github.com/cosmos/cosmos-sdk/types/bech32"
	authtypes "github.com/cosmos/cosmos-sdk/x/auth/types"
)

// LedgerGenesis is the initial state and behaviour switches of the model ledger.
type LedgerGenesis struct {
	MintingDenom   string       `json:"minting_denom"`
	Balances       []LedgerBal  `json:"balances,omitempty"`
	ModuleIsMinter bool         `json:"module_is_minter"`
	Allowance      string       `json:"allowance"` // decimal; minter allowance of the cctp module
	Paused         bool         `json:"paused,omitempty"`
	Blacklist      []string     `json:"blacklist,omitempty"` // bech32 addresses
	FoldDenomCase  bool         `json:"fold_denom_case,omitempty"`
}

type LedgerBal struct {
	Addr   string `json:"addr"`
	Denom  string `json:"denom"`
	Amount string `json:"amount"`
}

// Call is one request received by the ledger, logged before validation.
type Call struct {
	Tx     string `json:"tx"`  // tag of the transaction it was made in ("" outside)
	Ord    int    `json:"ord"` // ordinal among the effectful calls of that transaction
	Kind   string `json:"kind"`
	From   string `json:"from"`
	To     string `json:"to,omitempty"`
	Denom  string `json:"denom"`
	Amount string `json:"amount"`
	NCoins int    `json:"ncoins"`
	Err    string `json:"err,omitempty"`
}

// Ledger implements types.BankKeeper and types.FiatTokenfactoryKeeper.
type Ledger struct {
	key  *storetypes.KVStoreKey
	fold bool

	mu     sync.Mutex
	log    []Call
	ords   map[string]int
	faults map[string]map[int]bool // tx tag -> ordinals that fail
	// SwallowPanics is never set; the ledger never panics on its own.
}

func NewLedger(key *storetypes.KVStoreKey) *Ledger {
	return &Ledger{key: key, ords: map[string]int{}, faults: map[string]map[int]bool{}}
}

var ErrInjected = errors.New("ledger: injected dependency failure")

// PanicFaultBase: a fault ordinal o >= PanicFaultBase makes call o-PanicFaultBase of the transaction fail
// by panicking (the way a dependency runs out of gas) instead of by returning an error.
const PanicFaultBase = 1000

const (
	kDenom     = "cfg/denom"
	kMinter    = "cfg/minter"
	kAllowance = "cfg/allowance"
	kPaused    = "cfg/paused"
	kFold      = "cfg/fold"
)

func balKey(addr []byte, denom string) []byte {
	return []byte(fmt.Sprintf("bal/%x/%s", addr, denom))
}
func supplyKey(denom string) []byte { return []byte("sup/" + denom) }
func blKey(addr []byte) []byte      { return []byte(fmt.Sprintf("bl/%x", addr)) }

func getInt(s storetypes.KVStore, k []byte) *big.Int {
	bz := s.Get(k)
	if bz == nil {
		return new(big.Int)
	}
	v, _ := new(big.Int).SetString(string(bz), 10)
	return v
}
func setInt(s storetypes.KVStore, k []byte, v *big.Int) {
	if v.Sign() == 0 {
		s.Delete(k)
		return
	}
	s.Set(k, []byte(v.String()))
}

// InitGenesis writes the ledger genesis into the store.
func (l *Ledger) InitGenesis(ctx sdk.Context, g LedgerGenesis) error {
	s := ctx.KVStore(l.key)
	s.Set([]byte(kDenom), []byte(g.MintingDenom))
	if g.ModuleIsMinter {
		s.Set([]byte(kMinter), []byte{1})
	}
	al, ok := new(big.Int).SetString(orZero(g.Allowance), 10)
	if !ok {
		return fmt.Errorf("bad allowance %q", g.Allowance)
	}
	setInt(s, []byte(kAllowance), al)
	if g.Paused {
		s.Set([]byte(kPaused), []byte{1})
	}
	if g.FoldDenomCase {
		s.Set([]byte(kFold), []byte{1})
	}
	for _, b := range g.Balances {
		_, addr, err := bech32.DecodeAndConvert(b.Addr)
		if err != nil {
			return err
		}
		v, ok := new(big.Int).SetString(b.Amount, 10)
		if !ok || v.Sign() < 0 {
			return fmt.Errorf("bad balance %q", b.Amount)
		}
		bd := l.norm(s, b.Denom)
		k := balKey(addr, bd)
		nv := new(big.Int).Add(getInt(s, k), v)
		setInt(s, k, nv)
		sk := supplyKey(bd)
		setInt(s, sk, new(big.Int).Add(getInt(s, sk), v))
	}
	for _, a := range g.Blacklist {
		_, addr, err := bech32.DecodeAndConvert(a)
		if err != nil {
			return err
		}
		s.Set(blKey(addr), []byte{1})
	}
	return nil
}

func orZero(s string) string {
	if s == "" {
		return "0"
	}
	return s
}

// ---- fault plans and call log -------------------------------------------------

func (l *Ledger) SetFaults(tx string, ords []int) {
	l.mu.Lock()
	defer l.mu.Unlock()
	m := map[int]bool{}
	for _, o := range ords {
		m[o] = true
	}
	l.faults[tx] = m
}

// ResetOrd forgets the dependency-call count of a transaction tag (after a simulation of it).
func (l *Ledger) ResetOrd(tx string) {
	l.mu.Lock()
	defer l.mu.Unlock()
	delete(l.ords, tx)
}

func (l *Ledger) Calls() []Call {
	l.mu.Lock()
	defer l.mu.Unlock()
	return append([]Call(nil), l.log...)
}

// CallsOf returns the calls made inside the transaction with the given tag.
func (l *Ledger) CallsOf(tx string) []Call {
	l.mu.Lock()
	defer l.mu.Unlock()
	var out []Call
	for _, c := range l.log {
		if c.Tx == tx {
			out = append(out, c)
		}
	}
	return out
}

func (l *Ledger) begin(ctx sdk.Context, c Call) (idx int, inject bool) {
	l.mu.Lock()
	defer l.mu.Unlock()
	tag := TxTag(ctx)
	c.Tx = tag
	c.Ord = l.ords[tag]
	l.ords[tag]++
	l.log = append(l.log, c)
	if l.faults[tag][c.Ord+PanicFaultBase] {
		l.log[len(l.log)-1].Err = "injected panic (out of gas)"
		panic(storetypes.ErrorOutOfGas{Descriptor: "injected dependency failure"})
	}
	return len(l.log) - 1, l.faults[tag][c.Ord]
}

func (l *Ledger) finish(idx int, err error) error {
	if err != nil {
		l.mu.Lock()
		l.log[idx].Err = err.Error()
		l.mu.Unlock()
	}
	return err
}

func (l *Ledger) norm(s storetypes.KVStore, denom string) string {
	if s.Has([]byte(kFold)) {
		return strings.ToLower(denom)
	}
	return denom
}

// ---- BankKeeper ---------------------------------------------------------------

func (l *Ledger) GetBalance(goCtx context.Context, addr sdk.AccAddress, denom string) sdk.Coin {
	ctx := sdk.UnwrapSDKContext(goCtx)
	s := ctx.KVStore(l.key)
	v := getInt(s, balKey(addr, l.norm(s, denom)))
	return sdk.Coin{Denom: denom, Amount: sdkmath.NewIntFromBigInt(v)}
}

func firstCoin(amt sdk.Coins) (string, string) {
	if len(amt) == 0 {
		return "", "0"
	}
	a := "nil"
	if !amt[0].Amount.IsNil() {
		a = amt[0].Amount.String()
	}
	return amt[0].Denom, a
}

func (l *Ledger) SendCoinsFromAccountToModule(goCtx context.Context, sender sdk.AccAddress, module string, amt sdk.Coins) error {
	ctx := sdk.UnwrapSDKContext(goCtx)
	d, a := firstCoin(amt)
	modAddr := authtypes.NewModuleAddress(module)
	idx, inject := l.begin(ctx, Call{Kind: "transfer", From: sender.String(), To: modAddr.String(), Denom: d, Amount: a, NCoins: len(amt)})
	if inject {
		return l.finish(idx, ErrInjected)
	}
	return l.finish(idx, l.transfer(ctx, sender, module, amt))
}

func (l *Ledger) transfer(ctx sdk.Context, sender sdk.AccAddress, module string, amt sdk.Coins) error {
	s := ctx.KVStore(l.key)
	if module != "cctp" {
		return fmt.Errorf("ledger: module account %s does not exist", module)
	}
	modAddr := authtypes.NewModuleAddress(module)
	for _, c := range amt {
		if c.Amount.IsNil() || c.Amount.IsNegative() || sdk.ValidateDenom(c.Denom) != nil {
			return fmt.Errorf("ledger: invalid coins")
		}
	}
	minting := l.norm(s, string(s.Get([]byte(kDenom))))
	for _, c := range amt {
		denom := l.norm(s, c.Denom)
		if denom == minting {
			// fiat-token-factory send restriction
			if s.Has([]byte(kPaused)) {
				return fmt.Errorf("ledger: transfers of %s are paused", denom)
			}
			if s.Has(blKey(sender)) || s.Has(blKey(modAddr)) {
				return fmt.Errorf("ledger: blacklisted account")
			}
		}
		fk := balKey(sender, denom)
		have := getInt(s, fk)
		if have.Cmp(c.Amount.BigInt()) < 0 {
			return fmt.Errorf("ledger: insufficient funds: have %s%s need %s", have, denom, c.Amount)
		}
		setInt(s, fk, new(big.Int).Sub(have, c.Amount.BigInt()))
		tk := balKey(modAddr, denom)
		setInt(s, tk, new(big.Int).Add(getInt(s, tk), c.Amount.BigInt()))
	}
	return nil
}

// ---- FiatTokenfactoryKeeper -----------------------------------------------------

func (l *Ledger) GetMintingDenom(goCtx context.Context) ftftypes.MintingDenom {
	ctx := sdk.UnwrapSDKContext(goCtx)
	return ftftypes.MintingDenom{Denom: string(ctx.KVStore(l.key).Get([]byte(kDenom)))}
}

func coinStr(c sdk.Coin) string {
	if c.Amount.IsNil() {
		return "nil"
	}
	return c.Amount.String()
}

func (l *Ledger) isMinter(s storetypes.KVStore, from string) bool {
	return s.Has([]byte(kMinter)) && from == authtypes.NewModuleAddress("cctp").String()
}

func (l *Ledger) Burn(ctx sdk.Context, msg *ftftypes.MsgBurn) (*ftftypes.MsgBurnResponse, error) {
	idx, inject := l.begin(ctx, Call{Kind: "burn", From: msg.From, Denom: msg.Amount.Denom, Amount: coinStr(msg.Amount), NCoins: 1})
	if inject {
		return nil, l.finish(idx, sdkerrors.Wrap(ftftypes.ErrBurn, ErrInjected.Error()))
	}
	return &ftftypes.MsgBurnResponse{}, l.finish(idx, l.burn(ctx, msg))
}

func (l *Ledger) burn(ctx sdk.Context, msg *ftftypes.MsgBurn) error {
	s := ctx.KVStore(l.key)
	if !l.isMinter(s, msg.From) {
		return sdkerrors.Wrapf(ftftypes.ErrUnauthorized, "ledger: %s is not a minter", msg.From)
	}
	_, from, err := bech32.DecodeAndConvert(msg.From)
	if err != nil {
		return err
	}
	if s.Has(blKey(from)) {
		return sdkerrors.Wrapf(ftftypes.ErrBurn, "ledger: minter is blacklisted")
	}
	denom := l.norm(s, msg.Amount.Denom)
	if denom != l.norm(s, string(s.Get([]byte(kDenom)))) {
		return sdkerrors.Wrapf(ftftypes.ErrBurn, "ledger: burning denom is incorrect")
	}
	if msg.Amount.Amount.IsNil() || !msg.Amount.Amount.IsPositive() {
		return sdkerrors.Wrapf(ftftypes.ErrBurn, "ledger: burning amount is invalid")
	}
	if s.Has([]byte(kPaused)) {
		return sdkerrors.Wrapf(ftftypes.ErrBurn, "ledger: burning is paused")
	}
	fk := balKey(from, denom)
	have := getInt(s, fk)
	if have.Cmp(msg.Amount.Amount.BigInt()) < 0 {
		return sdkerrors.Wrapf(ftftypes.ErrBurn, "ledger: insufficient funds to burn")
	}
	setInt(s, fk, new(big.Int).Sub(have, msg.Amount.Amount.BigInt()))
	sk := supplyKey(denom)
	setInt(s, sk, new(big.Int).Sub(getInt(s, sk), msg.Amount.Amount.BigInt()))
	bk := []byte("burned/" + denom)
	setInt(s, bk, new(big.Int).Add(getInt(s, bk), msg.Amount.Amount.BigInt()))
	return nil
}

func (l *Ledger) Mint(ctx sdk.Context, msg *ftftypes.MsgMint) (*ftftypes.MsgMintResponse, error) {
	idx, inject := l.begin(ctx, Call{Kind: "mint", From: msg.From, To: msg.Address, Denom: msg.Amount.Denom, Amount: coinStr(msg.Amount), NCoins: 1})
	if inject {
		return nil, l.finish(idx, sdkerrors.Wrap(ftftypes.ErrMint, ErrInjected.Error()))
	}
	return &ftftypes.MsgMintResponse{}, l.finish(idx, l.mint(ctx, msg))
}

func (l *Ledger) mint(ctx sdk.Context, msg *ftftypes.MsgMint) error {
	s := ctx.KVStore(l.key)
	if !l.isMinter(s, msg.From) {
		return sdkerrors.Wrapf(ftftypes.ErrUnauthorized, "ledger: %s is not a minter", msg.From)
	}
	_, from, err := bech32.DecodeAndConvert(msg.From)
	if err != nil {
		return err
	}
	if s.Has(blKey(from)) {
		return sdkerrors.Wrapf(ftftypes.ErrMint, "ledger: minter is blacklisted")
	}
	_, to, err := bech32.DecodeAndConvert(msg.Address)
	if err != nil {
		return err
	}
	if s.Has(blKey(to)) {
		return sdkerrors.Wrapf(ftftypes.ErrMint, "ledger: receiver is blacklisted")
	}
	denom := l.norm(s, msg.Amount.Denom)
	if denom != l.norm(s, string(s.Get([]byte(kDenom)))) {
		return sdkerrors.Wrapf(ftftypes.ErrMint, "ledger: minting denom is incorrect")
	}
	if msg.Amount.Amount.IsNil() || !msg.Amount.Amount.IsPositive() {
		return sdkerrors.Wrapf(ftftypes.ErrMint, "ledger: minting amount is invalid")
	}
	al := getInt(s, []byte(kAllowance))
	if al.Cmp(msg.Amount.Amount.BigInt()) < 0 {
		return sdkerrors.Wrapf(ftftypes.ErrMint, "ledger: minting amount is greater than the allowance")
	}
	if s.Has([]byte(kPaused)) {
		return sdkerrors.Wrapf(ftftypes.ErrMint, "ledger: minting is paused")
	}
	setInt(s, []byte(kAllowance), new(big.Int).Sub(al, msg.Amount.Amount.BigInt()))
	sk := supplyKey(denom)
	setInt(s, sk, new(big.Int).Add(getInt(s, sk), msg.Amount.Amount.BigInt()))
	tk := balKey(to, denom)
	setInt(s, tk, new(big.Int).Add(getInt(s, tk), msg.Amount.Amount.BigInt()))
	mk := []byte("minted/" + denom)
	setInt(s, mk, new(big.Int).Add(getInt(s, mk), msg.Amount.Amount.BigInt()))
	return nil
}

// ---- harness-side mutations between blocks (written straight into the
// commit store's working set; committed with the next block) ----------------------

func (l *Ledger) AdminSetPaused(s storetypes.KVStore, p bool) {
	if p {
		s.Set([]byte(kPaused), []byte{1})
	} else {
		s.Delete([]byte(kPaused))
	}
}
func (l *Ledger) AdminSetBlacklisted(s storetypes.KVStore, addr []byte, b bool) {
	if b {
		s.Set(blKey(addr), []byte{1})
	} else {
		s.Delete(blKey(addr))
	}
}
func (l *Ledger) AdminSetAllowance(s storetypes.KVStore, v *big.Int) {
	setInt(s, []byte(kAllowance), v)
}
func (l *Ledger) AdminSetMinter(s storetypes.KVStore, b bool) {
	if b {
		s.Set([]byte(kMinter), []byte{1})
	} else {
		s.Delete([]byte(kMinter))
	}
}
func (l *Ledger) AdminFund(s storetypes.KVStore, addr []byte, denom string, v *big.Int) {
	k := balKey(addr, denom)
	setInt(s, k, new(big.Int).Add(getInt(s, k), v))
	sk := supplyKey(denom)
	setInt(s, sk, new(big.Int).Add(getInt(s, sk), v))
}

// ---- read-side helpers for oracles ---------------------------------------------

// Dump returns the whole ledger store as sorted "key=value" lines.
func DumpStore(s storetypes.KVStore) []string {
	it := s.Iterator(nil, nil)
	defer it.Close()
	var out []string
	for ; it.Valid(); it.Next() {
		out = append(out, fmt.Sprintf("%x=%x", it.Key(), it.Value()))
	}
	sort.Strings(out)
	return out
}

func (l *Ledger) Balance(s storetypes.KVStore, addr []byte, denom string) *big.Int {
	return getInt(s, balKey(addr, denom))
}
func (l *Ledger) Supply(s storetypes.KVStore, denom string) *big.Int {
	return getInt(s, supplyKey(denom))
}
func (l *Ledger) Burned(s storetypes.KVStore, denom string) *big.Int {
	return getInt(s, []byte("burned/"+denom))
}
func (l *Ledger) Minted(s storetypes.KVStore, denom string) *big.Int {
	return getInt(s, []byte("minted/"+denom))
}
func (l *Ledger) Allowance(s storetypes.KVStore) *big.Int { return getInt(s, []byte(kAllowance)) }
