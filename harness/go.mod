module verif/harness

go 1.23

toolchain go1.23.5

require (
	cosmossdk.io/core v0.11.0
	cosmossdk.io/log v1.3.1
	cosmossdk.io/math v1.3.0
	cosmossdk.io/store v1.1.0
	cosmossdk.io/x/tx v0.13.3
	github.com/circlefin/noble-cctp v0.0.0
	github.com/circlefin/noble-fiattokenfactory v0.0.0-20241030165025-e3796e8ba8c1
	github.com/cometbft/cometbft v0.38.9
	github.com/cosmos/cosmos-db v1.0.2
	github.com/cosmos/cosmos-sdk v0.50.7
	github.com/cosmos/gogoproto v1.5.0
	github.com/decred/dcrd/dcrec/secp256k1/v4 v4.2.0
	github.com/ethereum/go-ethereum v1.12.0
	golang.org/x/crypto v0.24.0
	google.golang.org/protobuf v1.34.2
	pgregory.net/rapid v1.3.0
)

require (
	cosmossdk.io/api v0.7.5 // indirect
	cosmossdk.io/collections v0.4.0 // indirect
	cosmossdk.io/depinject v1.0.0-alpha.4 // indirect
	cosmossdk.io/errors v1.0.1 // indirect
	filippo.io/edwards25519 v1.0.0 // indirect
	github.com/99designs/keyring v1.2.2 // indirect
	github.com/DataDog/datadog-go v3.2.0+incompatible // indirect
	github.com/beorn7/perks v1.0.1 // indirect
	github.com/bgentry/speakeasy v0.1.1-0.20220910012023-760eaf8b6816 // indirect
	github.com/btcsuite/btcd/btcec/v2 v2.3.2 // indirect
	github.com/cenkalti/backoff/v4 v4.1.3 // indirect
	github.com/cespare/xxhash/v2 v2.3.0 // indirect
	github.com/circlefin/noble-cctp/api v0.0.0-00010101000000-000000000000 // indirect
	github.com/cockroachdb/errors v1.11.3 // indirect
	github.com/cockroachdb/logtags v0.0.0-20230118201751-21c54148d20b // indirect
	github.com/cockroachdb/redact v1.1.5 // indirect
	github.com/cometbft/cometbft-db v0.11.0 // indirect
	github.com/cosmos/btcutil v1.0.5 // indirect
	github.com/cosmos/cosmos-proto v1.0.0-beta.5 // indirect
	github.com/cosmos/go-bip39 v1.0.0 // indirect
	github.com/cosmos/gogogateway v1.2.0 // indirect
	github.com/cosmos/iavl v1.1.2 // indirect
	github.com/cosmos/ics23/go v0.10.0 // indirect
	github.com/davecgh/go-spew v1.1.2-0.20180830191138-d8f796af33cc // indirect
	github.com/desertbit/timer v0.0.0-20180107155436-c41aec40b27f // indirect
	github.com/dvsekhvalnov/jose2go v1.6.0 // indirect
	github.com/emicklei/dot v1.6.1 // indirect
	github.com/fatih/color v1.16.0 // indirect
	github.com/felixge/httpsnoop v1.0.4 // indirect
	github.com/fsnotify/fsnotify v1.7.0 // indirect
	github.com/getsentry/sentry-go v0.27.0 // indirect
	github.com/go-kit/kit v0.12.0 // indirect
	github.com/go-kit/log v0.2.1 // indirect
	github.com/go-logfmt/logfmt v0.6.0 // indirect
	github.com/godbus/dbus v0.0.0-20190726142602-4481cbc300e2 // indirect
	github.com/gogo/googleapis v1.4.1 // indirect
	github.com/gogo/protobuf v1.3.2 // indirect
	github.com/golang/protobuf v1.5.4 // indirect
	github.com/golang/snappy v0.0.5-0.20220116011046-fa5810519dcb // indirect
	github.com/google/btree v1.1.2 // indirect
	github.com/google/go-cmp v0.6.0 // indirect
	github.com/google/orderedcode v0.0.1 // indirect
	github.com/gorilla/handlers v1.5.2 // indirect
	github.com/gorilla/mux v1.8.1 // indirect
	github.com/gorilla/websocket v1.5.0 // indirect
	github.com/grpc-ecosystem/go-grpc-middleware v1.4.0 // indirect
	github.com/grpc-ecosystem/grpc-gateway v1.16.0 // indirect
	github.com/gsterjov/go-libsecret v0.0.0-20161001094733-a6f4afe4910c // indirect
	github.com/hashicorp/go-hclog v1.5.0 // indirect
	github.com/hashicorp/go-immutable-radix v1.3.1 // indirect
	github.com/hashicorp/go-metrics v0.5.3 // indirect
	github.com/hashicorp/go-plugin v1.5.2 // indirect
	github.com/hashicorp/golang-lru v1.0.2 // indirect
	github.com/hashicorp/golang-lru/v2 v2.0.7 // indirect
	github.com/hashicorp/hcl v1.0.0 // indirect
	github.com/hashicorp/yamux v0.1.1 // indirect
	github.com/hdevalence/ed25519consensus v0.1.0 // indirect
	github.com/holiman/uint256 v1.2.2-0.20230321075855-87b91420868c // indirect
	github.com/huandu/skiplist v1.2.0 // indirect
	github.com/iancoleman/strcase v0.3.0 // indirect
	github.com/improbable-eng/grpc-web v0.15.0 // indirect
	github.com/klauspost/compress v1.17.7 // indirect
	github.com/kr/pretty v0.3.1 // indirect
	github.com/kr/text v0.2.0 // indirect
	github.com/lib/pq v1.10.9 // indirect
	github.com/libp2p/go-buffer-pool v0.1.0 // indirect
	github.com/magiconair/properties v1.8.7 // indirect
	github.com/mattn/go-colorable v0.1.13 // indirect
	github.com/mattn/go-isatty v0.0.20 // indirect
	github.com/minio/highwayhash v1.0.2 // indirect
	github.com/mitchellh/go-testing-interface v1.14.1 // indirect
	github.com/mitchellh/mapstructure v1.5.0 // indirect
	github.com/mtibben/percent v0.2.1 // indirect
	github.com/oasisprotocol/curve25519-voi v0.0.0-20230904125328-1f23a7beb09a // indirect
	github.com/oklog/run v1.1.0 // indirect
	github.com/pelletier/go-toml/v2 v2.2.2 // indirect
	github.com/pkg/errors v0.9.1 // indirect
	github.com/pmezard/go-difflib v1.0.1-0.20181226105442-5d4384ee4fb2 // indirect
	github.com/prometheus/client_golang v1.19.0 // indirect
	github.com/prometheus/client_model v0.6.1 // indirect
	github.com/prometheus/common v0.52.2 // indirect
	github.com/prometheus/procfs v0.13.0 // indirect
	github.com/rcrowley/go-metrics v0.0.0-20201227073835-cf1acfcdf475 // indirect
	github.com/rogpeppe/go-internal v1.12.0 // indirect
	github.com/rs/cors v1.8.3 // indirect
	github.com/rs/zerolog v1.32.0 // indirect
	github.com/sagikazarmark/slog-shim v0.1.0 // indirect
	github.com/spf13/afero v1.11.0 // indirect
	github.com/spf13/cast v1.6.0 // indirect
	github.com/spf13/cobra v1.8.1 // indirect
	github.com/spf13/pflag v1.0.5 // indirect
	github.com/spf13/viper v1.18.2 // indirect
	github.com/stretchr/testify v1.9.0 // indirect
	github.com/subosito/gotenv v1.6.0 // indirect
	github.com/syndtr/goleveldb v1.0.1-0.20220721030215-126854af5e6d // indirect
	github.com/tendermint/go-amino v0.16.0 // indirect
	github.com/tidwall/btree v1.7.0 // indirect
	golang.org/x/exp v0.0.0-20240404231335-c0f41cb1a7a0 // indirect
	golang.org/x/net v0.26.0 // indirect
	golang.org/x/sync v0.7.0 // indirect
	golang.org/x/sys v0.21.0 // indirect
	golang.org/x/term v0.21.0 // indirect
	golang.org/x/text v0.16.0 // indirect
	google.golang.org/genproto v0.0.0-20240227224415-6ceb2ff114de // indirect
	google.golang.org/genproto/googleapis/api v0.0.0-20240805194559-2c9e96a0b5d4 // indirect
	google.golang.org/genproto/googleapis/rpc v0.0.0-20240730163845-b1a4ccb954bf // indirect
	google.golang.org/grpc v1.65.0 // indirect
	gopkg.in/ini.v1 v1.67.0 // indirect
	gopkg.in/yaml.v3 v3.0.1 // indirect
	nhooyr.io/websocket v1.8.7 // indirect
	sigs.k8s.io/yaml v1.4.0 // indirect
)

replace (
	github.com/circlefin/noble-cctp => /repo
	github.com/circlefin/noble-cctp/api => /repo/api
	github.com/syndtr/goleveldb => github.com/syndtr/goleveldb v1.0.1-0.20210819022825-2ae1ddf74ef7
)
