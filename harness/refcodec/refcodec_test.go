package refcodec

import (
	"bytes"
	"encoding/hex"
	"math/big"
	"testing"
)

// Hand-computed vectors pin the reference itself.
func TestVectors(t *testing.T) {
	h := "00000000" + "00000004" + "00000001" + "0000000000000102" +
		"00000000000000000000000011111111111111111111111111111111111111aa" +
		"00000000000000000000000022222222222222222222222222222222222222bb" +
		"00000000000000000000000000000000000000000000000000000000000000cc" + "dead"
	bz, _ := hex.DecodeString(h)
	m, err := DecodeMessage(bz)
	if err != nil || m.Version != 0 || m.Source != 4 || m.Dest != 1 || m.Nonce != 258 || m.Sender[31] != 0xaa || m.Recip[31] != 0xbb || m.Caller[31] != 0xcc || !bytes.Equal(m.Body, []byte{0xde, 0xad}) {
		t.Fatalf("bad decode %+v %v", m, err)
	}
	back, _ := EncodeMessage(m)
	if !bytes.Equal(back, bz) {
		t.Fatal("roundtrip")
	}
	bh := "00000001" + "00000000000000000000000000000000000000000000000000000000000000a1" +
		"00000000000000000000000000000000000000000000000000000000000000a2" +
		"0000000000000000000000000000000000000000000000000000000000010000" +
		"00000000000000000000000000000000000000000000000000000000000000a3"
	bb, _ := hex.DecodeString(bh)
	b, err := DecodeBurn(bb)
	if err != nil || b.Version != 1 || b.BurnToken[31] != 0xa1 || b.MintRecip[31] != 0xa2 || b.Amount.Cmp(big.NewInt(65536)) != 0 || b.MsgSender[31] != 0xa3 {
		t.Fatalf("bad burn %+v %v", b, err)
	}
	back, _ = EncodeBurn(b)
	if !bytes.Equal(back, bb) {
		t.Fatal("burn roundtrip")
	}
}
