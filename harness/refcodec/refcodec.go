// Package refcodec is an independent encoder/decoder of the CCTP message and
// burn-message layouts, written from the layout stated in property C16 (literal
// offsets; big-endian) and using nothing from the module under test.
package refcodec

import (
	"errors"
	"math/big"
)

// Message header: version u32 @0, source domain u32 @4, destination domain u32 @8,
// nonce u64 @12, sender [32] @20, recipient [32] @52, destination caller [32] @84,
// body @116..
type Message struct {
	Version uint32
	Source  uint32
	Dest    uint32
	Nonce   uint64
	Sender  []byte
	Recip   []byte
	Caller  []byte
	Body    []byte
}

func be32(b []byte) uint32 {
	return uint32(b[0])<<24 | uint32(b[1])<<16 | uint32(b[2])<<8 | uint32(b[3])
}
func be64(b []byte) uint64 {
	return uint64(be32(b[0:4]))<<32 | uint64(be32(b[4:8]))
}
func put32(b []byte, v uint32) {
	b[0], b[1], b[2], b[3] = byte(v>>24), byte(v>>16), byte(v>>8), byte(v)
}
func put64(b []byte, v uint64) {
	put32(b[0:4], uint32(v>>32))
	put32(b[4:8], uint32(v))
}

func clone(b []byte) []byte { return append([]byte{}, b...) }

var ErrShort = errors.New("refcodec: message shorter than 116 bytes")

func DecodeMessage(bz []byte) (*Message, error) {
	if len(bz) < 116 {
		return nil, ErrShort
	}
	return &Message{
		Version: be32(bz[0:4]),
		Source:  be32(bz[4:8]),
		Dest:    be32(bz[8:12]),
		Nonce:   be64(bz[12:20]),
		Sender:  clone(bz[20:52]),
		Recip:   clone(bz[52:84]),
		Caller:  clone(bz[84:116]),
		Body:    clone(bz[116:]),
	}, nil
}

func EncodeMessage(m *Message) ([]byte, error) {
	if len(m.Sender) != 32 || len(m.Recip) != 32 || len(m.Caller) != 32 {
		return nil, errors.New("refcodec: address fields must be 32 bytes")
	}
	out := make([]byte, 116+len(m.Body))
	put32(out[0:4], m.Version)
	put32(out[4:8], m.Source)
	put32(out[8:12], m.Dest)
	put64(out[12:20], m.Nonce)
	copy(out[20:52], m.Sender)
	copy(out[52:84], m.Recip)
	copy(out[84:116], m.Caller)
	copy(out[116:], m.Body)
	return out, nil
}

// Burn body: version u32 @0, burn token [32] @4, mint recipient [32] @36,
// amount u256 @68, message sender [32] @100; 132 bytes in all.
type Burn struct {
	Version   uint32
	BurnToken []byte
	MintRecip []byte
	Amount    *big.Int
	MsgSender []byte
}

func DecodeBurn(bz []byte) (*Burn, error) {
	if len(bz) != 132 {
		return nil, errors.New("refcodec: burn message must be 132 bytes")
	}
	return &Burn{
		Version:   be32(bz[0:4]),
		BurnToken: clone(bz[4:36]),
		MintRecip: clone(bz[36:68]),
		Amount:    new(big.Int).SetBytes(bz[68:100]),
		MsgSender: clone(bz[100:132]),
	}, nil
}

func EncodeBurn(b *Burn) ([]byte, error) {
	if len(b.BurnToken) != 32 || len(b.MintRecip) != 32 || len(b.MsgSender) != 32 {
		return nil, errors.New("refcodec: burn fields must be 32 bytes")
	}
	if b.Amount == nil || b.Amount.Sign() < 0 || b.Amount.BitLen() > 256 {
		return nil, errors.New("refcodec: amount out of range")
	}
	out := make([]byte, 132)
	put32(out[0:4], b.Version)
	copy(out[4:36], b.BurnToken)
	copy(out[36:68], b.MintRecip)
	ab := b.Amount.Bytes()
	copy(out[100-len(ab):100], ab)
	copy(out[100:132], b.MsgSender)
	return out, nil
}
