package props

import (
	"bytes"
	"context"
	"crypto/sha256"
	"encoding/hex"
	"encoding/json"
	"fmt"
	"math/big"
	"os"
	"os/exec"
	"path/filepath"
	"reflect"
	"strings"
	"sync"
	"testing"
	"time"

	"github.com/circlefin/noble-cctp/x/cctp/types"
	sdk "github.com/cosmos/cosmos-sdk/types"
	"github.com/cosmos/gogoproto/proto"
	"pgregory.net/rapid"

	"verif/harness/attest"
	"verif/harness/chain"
	"verif/harness/refcodec"
	"verif/harness/sim"
)

// ---- C18: execution is deterministic and depends only on chain state ----------------------------------

// c18block is one recorded block: ledger changes applied first, then raw transactions.
type c18block struct {
	Ledger []*sim.LedgerOp `json:"ledger,omitempty"`
	Faults map[string][]int `json:"faults,omitempty"` // tx tag -> ordinals
	Txs    []string        `json:"txs"`              // hex raw transaction bytes
}

type c18case struct {
	Gen    *sim.GenSpec `json:"genesis"`
	Blocks []c18block   `json:"blocks"`
}

// digest is what two replays must agree on, component by component.
type digest struct {
	Parts []string // "name=sha256"
	// SimMismatch: a transaction whose simulation (SDK simulate mode, same committed state) and delivery disagree
	SimMismatch string
	// Gas: gas used per transaction tag (this replay)
	Gas map[string]int64
	// QueryDrift: a query server method that, handed the very same request object twice, answers differently the
	// second time or leaves the request changed
	QueryDrift string
}

func h(b []byte) string { s := sha256.Sum256(b); return hex.EncodeToString(s[:12]) }

// replayDigest runs the recorded blocks on a fresh chain instance.
func replayDigest(c *c18case) (d digest, err error) { return replayDigestGas(c, nil, 0) }

// txMemo makes a transaction decoder return the same decoded object for the same bytes: every execution of a
// transaction (simulation, delivery, a second chain instance) then works on the very request values the previous one
// worked on. A handler that writes into its request, or into slices cut from it, shows as a difference.
type txMemo struct {
	mu sync.Mutex
	m  map[string]sdk.Tx
}

func (m *txMemo) wrap(dec sdk.TxDecoder) sdk.TxDecoder {
	return func(bz []byte) (sdk.Tx, error) {
		m.mu.Lock()
		defer m.mu.Unlock()
		if tx, ok := m.m[string(bz)]; ok {
			return tx, nil
		}
		tx, err := dec(bz)
		if err == nil {
			m.m[string(bz)] = tx
		}
		return tx, err
	}
}

func replayDigestShared(c *c18case, m *txMemo) (d digest, err error) { return replayDigestOpt(c, nil, 0, m.wrap) }

func replayDigestGas(c *c18case, gas map[string]int64, slack uint64) (d digest, err error) {
	return replayDigestOpt(c, gas, slack, nil)
}

// replayDigestGas: as replayDigest; with gas != nil every transaction runs under a gas limit of the gas it used
// in that earlier replay plus slack (it needs no more, so nothing may change).
func replayDigestOpt(c *c18case, gas map[string]int64, slack uint64, wrap func(sdk.TxDecoder) sdk.TxDecoder) (d digest, err error) {
	defer func() {
		if r := recover(); r != nil {
			err = fmt.Errorf("replay panicked: %v", r)
		}
	}()
	w, err := sim.NewWorldDec(c.Gen, wrap)
	if err != nil {
		return d, err
	}
	ch := w.Chain
	for bi, b := range c.Blocks {
		for _, lo := range b.Ledger {
			w.ApplyLedgerOp(lo)
		}
		var raws [][]byte
		for _, t := range b.Txs {
			bz, _ := hex.DecodeString(t)
			raws = append(raws, bz)
		}
		for tag, ords := range b.Faults {
			ch.Ledger.SetFaults(tag, ords)
		}
		for _, raw := range raws {
			if g, ok := gas[chain.TagOf(raw)]; ok && g >= 0 {
				ch.SetGasLimit(chain.TagOf(raw), uint64(g)+slack)
			}
		}
		// the first transaction of the block also in simulation mode, on the very state it is delivered on
		simOK, simLog, simmed := false, "", false
		if gas == nil && len(raws) > 0 && len(b.Faults[chain.TagOf(raws[0])]) == 0 {
			simOK, simLog = ch.Simulate(raws[0])
			simmed = true
		}
		res := ch.DeliverBlock(raws)
		if simmed && d.SimMismatch == "" && !res[0].Panicked() && simOK != (res[0].Code == 0) {
			d.SimMismatch = fmt.Sprintf("block%d.tx0: simulated ok=%v (%s), delivered code=%d (%s)", bi, simOK, simLog, res[0].Code, res[0].Log)
		}
		d.Parts = append(d.Parts, fmt.Sprintf("block%d.apphash=%x", bi, ch.LastHash))
		for ti, r := range res {
			if d.Gas == nil {
				d.Gas = map[string]int64{}
			}
			d.Gas[chain.TagOf(raws[ti])] = r.GasUsed
			lg := r.Log
			if r.Panicked() {
				lg = "<panic>" // stack traces carry goroutine ids and addresses
			}
			var ev []byte
			for _, e := range r.Events {
				bz, _ := proto.Marshal(&e)
				ev = append(ev, bz...)
			}
			var data []byte
			for _, m := range r.Resps {
				bz, _ := proto.Marshal(m)
				data = append(data, bz...)
			}
			d.Parts = append(d.Parts, fmt.Sprintf("block%d.tx%d=code:%d/%s log:%s events:%s data:%s", bi, ti, r.Code, r.Codespace, h([]byte(lg)), h(ev), h(data)))
		}
	}
	ex, err := ch.ExportJSON()
	if err != nil {
		return d, err
	}
	d.Parts = append(d.Parts, "export="+h(ex))
	for _, q := range allQueries(w0(ch, c)) {
		resp := q.Resp()
		code, lg := ch.Query(q.Method, q.Req, resp)
		bz, _ := proto.Marshal(resp)
		d.Parts = append(d.Parts, fmt.Sprintf("query.%s=%d:%s:%s", q.Method, code, h([]byte(lg)), h(bz)))
	}
	d.Parts = append(d.Parts, "cctp-kv="+h([]byte(strings.Join(ch.RawKV(ch.CctpKey), "\n"))))
	d.QueryDrift = queryTwice(ch, w0(ch, c))
	return d, nil
}

// queryTwice hands every query server method the same request object twice (as an in-process caller does): both
// answers must be equal and the request must come back as it went in.
func queryTwice(ch *chain.Chain, w *sim.World) (drift string) {
	defer func() {
		if r := recover(); r != nil {
			drift = "" // a panicking query is C20's business
		}
	}()
	kv := reflect.ValueOf(ch.Keeper)
	for _, q := range allQueries(w) {
		m := kv.MethodByName(q.Method)
		if !m.IsValid() {
			continue
		}
		before, _ := proto.Marshal(q.Req)
		var answers []string
		for i := 0; i < 2; i++ {
			out := m.Call([]reflect.Value{reflect.ValueOf(context.Context(ch.Branch("q2"))), reflect.ValueOf(q.Req)})
			a := "error"
			if out[1].IsNil() {
				if pm, ok := out[0].Interface().(proto.Message); ok {
					bz, _ := proto.Marshal(pm)
					a = h(bz)
				}
			} else {
				a = "error: " + out[1].Interface().(error).Error()
			}
			answers = append(answers, a)
		}
		after, _ := proto.Marshal(q.Req)
		if answers[0] != answers[1] {
			return fmt.Sprintf("%s: first answer %s, second answer to the same request object %s", q.Method, answers[0], answers[1])
		}
		if !bytes.Equal(before, after) {
			return fmt.Sprintf("%s: request %x came back as %x", q.Method, before, after)
		}
	}
	return ""
}

// w0 gives allQueries a model to pick arguments from (the genesis model: fixed, replay-independent).
func w0(ch *chain.Chain, c *c18case) *sim.World {
	return &sim.World{Gen: c.Gen, Chain: ch, Model: sim.NewModel(c.Gen)}
}

// dropFailed removes the multi-message transactions whose result code in the reference digest is
// non-zero (an earlier message of theirs may have changed state before the rollback). Failed
// single-message transactions stay: they must fail again, identically.
// kept[block] lists the surviving tx indices (nil when nothing is dropped).
func dropFailed(c *c18case, ref digest) (*c18case, map[int][]int) {
	failed := map[string]bool{}
	for _, p := range ref.Parts {
		var b, t int
		var rest string
		if n, _ := fmt.Sscanf(p, "block%d.tx%d=%s", &b, &t, &rest); n == 3 && !strings.HasPrefix(rest, "code:0/") {
			failed[fmt.Sprintf("%d.%d", b, t)] = true
		}
	}
	for k := range failed {
		var b, t int
		fmt.Sscanf(k, "%d.%d", &b, &t)
		bz, _ := hex.DecodeString(c.Blocks[b].Txs[t])
		if tx, err := chain.DecodeTx(bz); err != nil || len(tx.GetMsgs()) < 2 {
			delete(failed, k)
		}
	}
	if len(failed) == 0 {
		return nil, nil
	}
	out := &c18case{Gen: c.Gen}
	kept := map[int][]int{}
	for bi, b := range c.Blocks {
		nb := c18block{Ledger: b.Ledger, Faults: b.Faults}
		for ti, tx := range b.Txs {
			if !failed[fmt.Sprintf("%d.%d", bi, ti)] {
				nb.Txs = append(nb.Txs, tx)
				kept[bi] = append(kept[bi], ti)
			}
		}
		out.Blocks = append(out.Blocks, nb)
	}
	return out, kept
}

// filterDigest renames the surviving transactions of the reference digest to their new positions.
func filterDigest(ref digest, kept map[int][]int) digest {
	var out digest
	for _, p := range ref.Parts {
		var b, t int
		var rest string
		if n, _ := fmt.Sscanf(p, "block%d.tx%d=%s", &b, &t, &rest); n == 3 {
			for ni, oi := range kept[b] {
				if oi == t {
					out.Parts = append(out.Parts, fmt.Sprintf("block%d.tx%d=%s", b, ni, p[strings.IndexByte(p, '=')+1:]))
				}
			}
			continue
		}
		out.Parts = append(out.Parts, p)
	}
	return out
}

func firstDiff(a, b digest) string {
	for i := range a.Parts {
		if i >= len(b.Parts) {
			return "second replay is shorter"
		}
		if a.Parts[i] != b.Parts[i] {
			return a.Parts[i] + "  VS  " + b.Parts[i]
		}
	}
	if len(b.Parts) > len(a.Parts) {
		return "second replay is longer"
	}
	return ""
}

// genC18 generates a history by running it (replay #0) and recording raw transactions.
func genC18(rt *rapid.T, minTx int) (*c18case, *sim.World) {
	gs := sim.DrawGenesis(rt, sim.GenOpts{ManyEntries: true, UsedInGen: true, MaxAtt: 6, BigBalances: true, AbsentOpt: true, CaseLimits: true})
	w, err := sim.NewWorld(gs)
	if err != nil {
		rt.Fatalf("HARNESS %v", err)
	}
	g := &sim.G{T: rt, W: w}
	c := &c18case{Gen: gs}
	nb := rapid.IntRange(6, 16).Draw(rt, "nblocks")
	mix := Mix{Send: 3, Dep: 3, Recv: 4, Replay: 1, Replace: 2, RepDep: 2, Admin: 8, Multi: 1, DepValid: 90, RecvBroken: 15, ReplaceValid: 85, AdminHolder: 92, FaultPct: 3, AttProbe: 3}
	for b := 0; b < nb; b++ {
		var blk c18block
		var ops []*sim.Op
		if rapid.IntRange(0, 9).Draw(rt, "ledgerop") == 0 {
			lo := g.LedgerOpDraw("ledger")
			blk.Ledger = append(blk.Ledger, lo.Ledger)
			ops = append(ops, lo)
		}
		ntx := rapid.IntRange(1, 4).Draw(rt, "ntx")
		for i := 0; i < ntx; i++ {
			if rapid.IntRange(0, 11).Draw(rt, "rollbackpattern") == 0 {
				// a successful state change followed by a failing message in one transaction: the SDK discards both
				ops = append(ops, rollbackProbe(g, "rb")...)
				i++
				continue
			}
			ops = append(ops, mix.next(g))
		}
		// encode now so that the very same bytes are replayed
		var rawOps []*sim.Op
		for _, op := range ops {
			if op.Kind != "tx" {
				rawOps = append(rawOps, op)
				continue
			}
			bz, err := w.Chain.EncodeTx(op.SdkMsgs())
			if err != nil {
				rt.Fatalf("HARNESS encode: %v", err)
			}
			blk.Txs = append(blk.Txs, hex.EncodeToString(bz))
			ro := &sim.Op{Kind: "raw", Raw: hex.EncodeToString(bz), Fault: op.Fault, Label: op.Label}
			if len(op.Fault) > 0 {
				if blk.Faults == nil {
					blk.Faults = map[string][]int{}
				}
				blk.Faults[chain.TagOf(bz)] = op.Fault
			}
			rawOps = append(rawOps, ro)
		}
		w.ExecBlock(rawOps)
		c.Blocks = append(c.Blocks, blk)
	}
	return c, w
}

func c18nontrivial(w *sim.World) (string, []string) {
	ok := 0
	kinds := map[string]bool{}
	for _, s := range w.Steps {
		if s.Op.Kind == "raw" && s.OK() {
			ok++
			kinds[s.Op.Label] = true
		}
	}
	var cls []string
	if ok >= 10 && len(kinds) >= 4 {
		cls = append(cls, "nontrivial")
		return shapeOf(w), cls
	}
	return "", cls
}

// c18check compares replays of one recorded history: sequential fresh instances, an
// instance created after an unrelated history, and concurrent instances.
func c18check(c *c18case, unrelated *c18case, concurrent int) *Viol {
	ref, err := replayDigest(c)
	if err != nil {
		return viol("C18", 0, "replay of a recorded history failed", "completes", err)
	}
	if ref.QueryDrift != "" {
		return viol("C18", 0, "a query handed the same request object twice", "same answer, request untouched", ref.QueryDrift)
	}
	if ref.SimMismatch != "" {
		return viol("C18", 0, "a transaction behaves differently in simulation mode than when it is delivered on the same state", "same verdict", ref.SimMismatch)
	}
	again, err := replayDigest(c)
	if err != nil {
		return viol("C18", 0, "second replay failed", "completes", err)
	}
	if d := firstDiff(ref, again); d != "" {
		return viol("C18", 0, "two fresh instances replaying the same history differ", "byte-identical", d)
	}
	if unrelated != nil {
		if _, err := replayDigest(unrelated); err == nil {
			after, err := replayDigest(c)
			if err != nil {
				return viol("C18", 0, "replay after an unrelated history failed", "completes", err)
			}
			if d := firstDiff(ref, after); d != "" {
				return viol("C18", 0, "replay after an unrelated history in the same process differs", "byte-identical", d)
			}
		}
	}
	// the decoded transaction objects shared between simulation, delivery and a second instance: a replay is a
	// replay whether or not the caller decodes the bytes again
	memo := &txMemo{m: map[string]sdk.Tx{}}
	for round := 1; round <= 2; round++ {
		sd, err := replayDigestShared(c, memo)
		if err != nil {
			return viol("C18", 0, "replay with shared decoded transactions failed", "completes", err)
		}
		if d := firstDiff(ref, sd); d != "" {
			return viol("C18", 0, fmt.Sprintf("replay %d that executes the same decoded transaction objects again (simulation, delivery, second instance) differs: a handler writes into its request", round), "byte-identical", d)
		}
	}
	if v := genesisVerdictStable(c); v != nil {
		return v
	}
	// metamorphic: every transaction under a gas limit of exactly what it used (and a little more): it needs no more,
	// so nothing may change (a result that looks at the gas left, or at the limit, would)
	for _, slack := range []uint64{0, 20000} {
		gd, err := replayDigestGas(c, ref.Gas, slack)
		if err != nil {
			return viol("C18", 0, "replay under per-transaction gas limits failed", "completes", err)
		}
		if d := firstDiff(ref, gd); d != "" {
			return viol("C18", 0, fmt.Sprintf("the same history with every transaction's gas limit set to the gas it used + %d gives other results", slack), "byte-identical", d)
		}
	}
	// metamorphic: dropping the transactions that failed must change nothing (anything a rolled-back
	// transaction leaves behind lives outside the store)
	if slim, kept := dropFailed(c, ref); slim != nil {
		sd, err := replayDigest(slim)
		if err != nil {
			return viol("C18", 0, "replay without the failed transactions failed", "completes", err)
		}
		want := filterDigest(ref, kept)
		if d := firstDiff(want, sd); d != "" {
			return viol("C18", 0, "the same history without its failed (rolled-back) transactions gives different results for the remaining ones", "byte-identical", d)
		}
	}
	if concurrent > 0 {
		var wg sync.WaitGroup
		out := make([]digest, concurrent)
		errs := make([]error, concurrent)
		for i := 0; i < concurrent; i++ {
			wg.Add(1)
			go func(i int) {
				defer wg.Done()
				out[i], errs[i] = replayDigest(c)
			}(i)
			if unrelated != nil {
				wg.Add(1)
				go func() {
					defer wg.Done()
					_, _ = replayDigest(unrelated)
				}()
			}
		}
		wg.Wait()
		for i := range out {
			if errs[i] != nil {
				return viol("C18", 0, "concurrent replay failed", "completes", errs[i])
			}
			if d := firstDiff(ref, out[i]); d != "" {
				return viol("C18", 0, "replay running concurrently with other instances differs", "byte-identical", d)
			}
		}
	}
	return nil
}

type c18replayCase struct {
	Case      *c18case `json:"case"`
	Unrelated *c18case `json:"unrelated,omitempty"`
}

func RunC18(t *testing.T) {
	st := newStats("C18")
	defer st.Write()
	conc := 3
	var prev *c18case
	// directed first: requests a handler could be tempted to write into (see c18requestCases)
	if cs, err := c18requestCases(); err != nil {
		t.Fatalf("HARNESS: %v", err)
	} else {
		for _, c := range cs {
			if v := c18check(c, nil, 2); v != nil {
				saveFail("C18", "c18", c18replayCase{Case: c}, v)
				t.Fatalf("VIOLATION %s", v)
			}
			cc := c
			st.Case("", func() any { return map[string]any{"genesis": cc.Gen, "blocks": len(cc.Blocks), "first_block": cc.Blocks[0]} }, "prelude:request-objects")
		}
	}
	rapid.Check(t, func(rt *rapid.T) {
		c, w := genC18(rt, 10)
		// generation itself was replay #0: compare it too (through the step records' app hashes is
		// implicit in replayDigest's first run being compared with the others)
		un := prev
		if v := c18check(c, un, conc); v != nil {
			saveFail("C18", "c18", c18replayCase{Case: c, Unrelated: un}, v)
			rt.Fatalf("VIOLATION %s", v)
		}
		// the generating run must agree with the replays on the final store root
		if d, err := replayDigest(c); err == nil {
			last := fmt.Sprintf("block%d.apphash=%x", len(c.Blocks)-1, w.Chain.LastHash)
			found := false
			for _, p := range d.Parts {
				if p == last {
					found = true
				}
			}
			if !found {
				v := viol("C18", 0, "store root hash of the generating run vs a replay of its recorded transactions", last, "different")
				saveFail("C18", "c18", c18replayCase{Case: c, Unrelated: un}, v)
				rt.Fatalf("VIOLATION %s", v)
			}
		}
		prev = c
		nt, cls := c18nontrivial(w)
		cc := c
		st.Case(nt, func() any { return map[string]any{"genesis": cc.Gen, "blocks": len(cc.Blocks), "first_block": cc.Blocks[0]} }, append(cls, "replays:sequential+after-unrelated+concurrent")...)
	})
	if !t.Failed() {
		st.Healthy(t, "nontrivial")
	}
}

func init() {
	replayers["c18"] = func(raw []byte) *Viol {
		var rc c18replayCase
		mustJSON(raw, &rc)
		for i := 0; i < 3; i++ {
			if v := c18check(rc.Case, rc.Unrelated, 4); v != nil {
				return v
			}
		}
		return nil
	}
}

// ---- two OS processes with different GOMAXPROCS, TZ and working directory ---------------------------

// RunC18Proc generates histories in this process, has a child process (other GOMAXPROCS, TZ,
// cwd) replay them from a file and compares the digests.
func RunC18Proc(t *testing.T) {
	if os.Getenv("VERIF_C18_CHILD") != "" {
		t.Skip("parent only")
	}
	st := newStats("C18")
	st.ID = "C18-proc"
	defer st.Write()
	var cases []*c18case
	var worlds []*sim.World
	rapid.Check(t, func(rt *rapid.T) {
		c, w := genC18(rt, 10)
		cases = append(cases, c)
		worlds = append(worlds, w)
	})
	// each history is followed by a variant: the same transaction bytes from a genesis whose attesters are
	// other keys (every attestation is then invalid). Memory retained outside the store makes the variant
	// behave differently depending on whether the original ran before it in the same process.
	var all []*c18case
	for _, c := range cases {
		all = append(all, c, attesterVariant(c))
	}
	cases = all
	if os.Getenv("VERIF_SHARD") == "" || strings.HasSuffix(os.Getenv("VERIF_SHARD"), ".0") {
		lq, err := largeQuorumCases()
		if err != nil {
			t.Fatalf("HARNESS %v", err)
		}
		cases = append(cases, lq...)
		st.Class("large-quorum-histories", len(lq))
	}
	v, harness := procCompare(cases)
	if harness != "" {
		t.Fatalf("HARNESS %s", harness)
	}
	if v != nil {
		saveFail("C18", "c18-proc", cases, v)
		t.Fatalf("VIOLATION %s", v)
	}
	for i := range worlds {
		nt, cls := c18nontrivial(worlds[i])
		st.Case(nt, nil, append(cls, "replays:two-processes")...)
		st.Case("", nil, "replays:two-processes-attester-variant")
	}
}

// largeQuorumCases: directed histories with 16, 24 and 32 required signatures; every block submits, for a
// fresh nonce, an attestation with an adjacent duplicate at one position (rejected) and then the honest one
// (accepted). Whatever an implementation does differently for large attestations (batches, worker pools
// sized by GOMAXPROCS) has to give the same results in the child process, which runs with GOMAXPROCS=1.
func largeQuorumCases() ([]*c18case, error) {
	var out []*c18case
	for _, t := range []int{16, 24, 32, 64, 128, 256} {
		gs := enumGenesis([4]int{0, 1, 2, 3})
		gs.Attesters = nil
		var ks []*attest.Key
		for i := 0; i < t+3; i++ {
			gs.Attesters = append(gs.Attesters, attest.K(i).Spelling(i%6))
			ks = append(ks, attest.K(i))
		}
		gs.Threshold = uint32(t)
		attest.SortByAddr(ks)
		w, err := sim.NewWorld(gs)
		if err != nil {
			return nil, err
		}
		c := &c18case{Gen: gs}
		by := sim.Acct(4)
		for p := 0; p+1 < t; p++ {
			if t > 32 && p != 0 && p != t/2 && p != t-2 {
				continue // (verification time grows with t; the large sets are there for time budgets, not positions)
			}
			m, _ := refcodec.EncodeMessage(&refcodec.Message{Version: 0, Source: 7, Dest: 4, Nonce: uint64(1000 + p), Sender: sim.Pad32([]byte{1}), Recip: sim.Pad32([]byte{2}), Caller: make([]byte, 32), Body: []byte{byte(p)}})
			var good, bad []byte
			for i, k := range ks[:t] {
				sig := attest.Sign(m, k, attest.SigStyle{})
				good = append(good, sig...)
				if i == p+1 {
					sig = attest.Sign(m, ks[p], attest.SigStyle{Twin: p%2 == 1})
				}
				bad = append(bad, sig...)
			}
			var blk c18block
			for _, att := range [][]byte{bad, good} {
				bz, err := w.Chain.EncodeTx([]sdk.Msg{&types.MsgReceiveMessage{From: by, Message: m, Attestation: att}})
				if err != nil {
					return nil, err
				}
				blk.Txs = append(blk.Txs, hex.EncodeToString(bz))
			}
			c.Blocks = append(c.Blocks, blk)
		}
		out = append(out, c)
	}
	return out, nil
}

// attesterVariant copies the case with every genesis attester replaced by another universe key.
func attesterVariant(c *c18case) *c18case {
	g := *c.Gen
	g.Attesters = nil
	for i := range c.Gen.Attesters {
		g.Attesters = append(g.Attesters, attest.K(16+i).Spelling(i))
	}
	return &c18case{Gen: &g, Blocks: c.Blocks}
}

// procCompare replays the cases here (in order) and in a child process with another
// environment (in reverse order) and compares the digests.
func procCompare(cases []*c18case) (v *Viol, harness string) {
	dir := outDir()
	in := filepath.Join(dir, "c18proc.in.json")
	out := filepath.Join(dir, "c18proc.out.json")
	bz, _ := json.Marshal(cases)
	if err := os.WriteFile(in, bz, 0o644); err != nil {
		return nil, err.Error()
	}
	cmd := exec.Command(os.Args[0], "-test.run", "^TestC18Child$", "-test.count", "1")
	cmd.Dir = "/"
	cmd.Env = append(os.Environ(), "VERIF_C18_CHILD="+in, "VERIF_C18_OUT="+out, "GOMAXPROCS=1", "TZ=Pacific/Kiritimati", "LANG=tr_TR.UTF-8")
	if o, err := cmd.CombinedOutput(); err != nil {
		return nil, fmt.Sprintf("child failed: %v\n%s", err, o)
	}
	var child [][]string
	cb, err := os.ReadFile(out)
	if err != nil {
		return nil, err.Error()
	}
	mustJSON(cb, &child)
	mine := make([]digest, len(cases))
	for i, c := range cases {
		d, err := replayDigest(c)
		if err != nil {
			return nil, err.Error()
		}
		mine[i] = d
		if diff := firstDiff(d, digest{Parts: child[i]}); diff != "" {
			return viol("C18", i, "replay in another OS process (GOMAXPROCS=1, other TZ, cwd=/, histories in another order) differs", "byte-identical", diff), ""
		}
	}
	// the same histories at another place in the chain's life (height, block time, proposer) and, for the
	// large-quorum ones, on a starved processor a little later in wall-clock time
	runChild := func(tag string, env []string, idxs []int) (map[int][]string, string) {
		o := filepath.Join(dir, "c18proc."+tag+".json")
		res := map[int][]string{}
		for _, i := range idxs {
			cmd := exec.Command(os.Args[0], "-test.run", "^TestC18Child$", "-test.count", "1")
			cmd.Dir = "/"
			cmd.Env = append(append(os.Environ(), "VERIF_C18_CHILD="+in, "VERIF_C18_OUT="+o), env...)
			if i >= 0 {
				cmd.Env = append(cmd.Env, fmt.Sprintf("VERIF_C18_ONLY=%d", i))
			}
			if out, err := cmd.CombinedOutput(); err != nil {
				return nil, fmt.Sprintf("%s child failed: %v\n%s", tag, err, out)
			}
			b, err := os.ReadFile(o)
			if err != nil {
				return nil, err.Error()
			}
			var all [][]string
			mustJSON(b, &all)
			_ = os.Remove(o)
			for j, p := range all {
				if p != nil && (i < 0 || j == i) {
					res[j] = p
				}
			}
		}
		return res, ""
	}
	noAppHash := func(parts []string) digest {
		var d digest
		for _, p := range parts {
			if !strings.Contains(p, ".apphash=") { // (the store's root hash covers version numbers, i.e. heights)
				d.Parts = append(d.Parts, p)
			}
		}
		return d
	}
	shifted, h := runChild("shift", []string{"VERIF_C18_SHIFT=1"}, []int{-1})
	if h != "" {
		return nil, h
	}
	for i := range cases {
		if diff := firstDiff(noAppHash(mine[i].Parts), noAppHash(shifted[i])); diff != "" {
			return viol("C18", i, "replay under another initial height, block time and proposer gives other results", "identical (store root aside)", diff), ""
		}
	}
	var big []int
	for i, c := range cases {
		if c.Gen != nil && c.Gen.Threshold >= 64 {
			big = append(big, i)
		}
	}
	if len(big) > 0 {
		starved, h := runChild("starve", []string{"VERIF_C18_STARVE=1", "GOMAXPROCS=1", "VERIF_C18_DELAY_MS=1100"}, big)
		if h != "" {
			return nil, h
		}
		for _, i := range big {
			if diff := firstDiff(mine[i], digest{Parts: starved[i]}); diff != "" {
				return viol("C18", i, "replay on a starved processor (every step takes many times longer in wall-clock time) differs", "byte-identical", diff), ""
			}
		}
	}
	// each history alone in a process that has executed nothing else: by now this process has
	// executed every history at least once, so whatever the module retains in process memory
	// (and only ever accumulates) separates the two
	type solo struct {
		i     int
		parts []string
		err   string
	}
	res := make(chan solo, len(cases))
	sem := make(chan struct{}, 8)
	n := 0
	for i := range cases {
		if i%2 == 1 && len(cases) > 24 {
			continue // the attester variants are covered by the ordered comparison above
		}
		n++
		go func(i int) {
			sem <- struct{}{}
			defer func() { <-sem }()
			o := filepath.Join(dir, fmt.Sprintf("c18proc.solo.%d.json", i))
			cmd := exec.Command(os.Args[0], "-test.run", "^TestC18Child$", "-test.count", "1")
			cmd.Dir = "/"
			cmd.Env = append(os.Environ(), "VERIF_C18_CHILD="+in, "VERIF_C18_OUT="+o, fmt.Sprintf("VERIF_C18_ONLY=%d", i))
			if out, err := cmd.CombinedOutput(); err != nil {
				res <- solo{i: i, err: fmt.Sprintf("solo child failed: %v\n%s", err, out)}
				return
			}
			var all [][]string
			b, err := os.ReadFile(o)
			if err != nil {
				res <- solo{i: i, err: err.Error()}
				return
			}
			mustJSON(b, &all)
			_ = os.Remove(o)
			res <- solo{i: i, parts: all[i]}
		}(i)
	}
	var first *Viol
	for k := 0; k < n; k++ {
		r := <-res
		if r.err != "" {
			harness = r.err
			continue
		}
		if diff := firstDiff(mine[r.i], digest{Parts: r.parts}); diff != "" && (first == nil || r.i < first.Step) {
			first = viol("C18", r.i, "replay alone in a fresh OS process differs from the replay in a process that executed other histories before", "byte-identical", diff)
		}
	}
	if first != nil {
		return first, ""
	}
	return nil, harness
}

func init() {
	replayers["c18-proc"] = func(raw []byte) *Viol {
		var cases []*c18case
		mustJSON(raw, &cases)
		v, _ := procCompare(cases)
		return v
	}
}

func RunC18Child(t *testing.T) {
	in := os.Getenv("VERIF_C18_CHILD")
	if in == "" {
		t.Skip("child only")
	}
	bz, err := os.ReadFile(in)
	if err != nil {
		t.Fatal(err)
	}
	var cases []*c18case
	mustJSON(bz, &cases)
	// replay in reverse order: whatever this process retains from "earlier" histories differs
	// from what the parent retained, so memory kept outside the store shows as a difference
	if os.Getenv("VERIF_C18_SHIFT") != "" {
		// another place in the chain's life: initial height, block times and proposer differ from the parent's
		chain.InitialHeight = 30_000_001
		chain.BlockTimeBase = time.Date(2031, 7, 1, 12, 0, 0, 0, time.UTC)
		chain.Proposer = []byte("another-proposer-20b")
	}
	if os.Getenv("VERIF_C18_STARVE") != "" {
		// CPU starvation: one processor shared with busy goroutines makes everything take many times longer in
		// wall-clock terms (a time budget inside the module would run out here and not in the parent)
		for i := 0; i < 24; i++ {
			go func() {
				for {
				}
			}()
		}
	}
	if d := os.Getenv("VERIF_C18_DELAY_MS"); d != "" {
		var ms int
		fmt.Sscan(d, &ms)
		time.Sleep(time.Duration(ms) * time.Millisecond)
	}
	out := make([][]string, len(cases))
	only := -1
	if s := os.Getenv("VERIF_C18_ONLY"); s != "" {
		fmt.Sscan(s, &only)
	}
	for i := len(cases) - 1; i >= 0; i-- {
		if only >= 0 && i != only {
			continue
		}
		d, err := replayDigest(cases[i])
		if err != nil {
			t.Fatal(err)
		}
		out[i] = d.Parts
	}
	ob, _ := json.Marshal(out)
	if err := os.WriteFile(os.Getenv("VERIF_C18_OUT"), ob, 0o644); err != nil {
		t.Fatal(err)
	}
}

// genesisVerdictStable: the verdict of genesis validation is a function of the document. The case's genesis and
// variants of it that validation must refuse (one entry of a keyed list twice, a flag left out) are validated twice
// in this process; both answers must be the same (the harness turns a panic into an error text).
func genesisVerdictStable(c *c18case) *Viol {
	cdc := chain.Codec()
	base := c.Gen.ChainGenesis().Cctp
	docs := []json.RawMessage{base}
	variant := func(f func(gs *types.GenesisState) bool) {
		var gs types.GenesisState
		if err := cdc.UnmarshalJSON(base, &gs); err != nil {
			return
		}
		if f(&gs) {
			if bz, err := cdc.MarshalJSON(&gs); err == nil {
				docs = append(docs, bz)
			}
		}
	}
	variant(func(gs *types.GenesisState) bool {
		if len(gs.AttesterList) == 0 {
			return false
		}
		gs.AttesterList = append(gs.AttesterList, gs.AttesterList[0])
		return true
	})
	variant(func(gs *types.GenesisState) bool {
		if len(gs.PerMessageBurnLimitList) == 0 {
			return false
		}
		gs.PerMessageBurnLimitList = append(gs.PerMessageBurnLimitList, gs.PerMessageBurnLimitList[0])
		return true
	})
	variant(func(gs *types.GenesisState) bool {
		if len(gs.TokenPairList) == 0 {
			return false
		}
		gs.TokenPairList = append(gs.TokenPairList, gs.TokenPairList[0])
		return true
	})
	variant(func(gs *types.GenesisState) bool {
		gs.UsedNoncesList = append(gs.UsedNoncesList, types.Nonce{SourceDomain: 3, Nonce: 9}, types.Nonce{SourceDomain: 3, Nonce: 9})
		return true
	})
	variant(func(gs *types.GenesisState) bool {
		if len(gs.TokenMessengerList) == 0 {
			return false
		}
		gs.TokenMessengerList = append(gs.TokenMessengerList, gs.TokenMessengerList[0])
		return true
	})
	variant(func(gs *types.GenesisState) bool { gs.BurningAndMintingPaused = nil; return true })
	variant(func(gs *types.GenesisState) bool { gs.SendingAndReceivingMessagesPaused = nil; return true })
	variant(func(gs *types.GenesisState) bool { gs.Owner = "not an address"; return true })
	say := func(err error) string {
		if err == nil {
			return "accepted"
		}
		return "refused: " + err.Error()
	}
	for i, doc := range docs {
		first := say(chain.ValidateGenesis(doc))
		second := say(chain.ValidateGenesis(doc))
		if first != second {
			return viol("C18", 0, fmt.Sprintf("genesis validation answers differently the second time it sees the same document (variant %d: %s)", i, doc), first, second)
		}
	}
	return nil
}

// c18requestCases: short fixed histories whose requests invite in-place edits: attestations whose recovery byte is the
// true id plus 54 or 81 (a normalisation applied to the caller's buffer gets one step further each time the same
// object is executed), replacements whose new body and caller are longer and shorter than the original's, a
// deposit replacement. The shared-decode replays of c18check execute each of them up to four times on the same objects.
func c18requestCases() ([]*c18case, error) {
	gs := enumGenesis([4]int{0, 1, 2, 3})
	w, err := sim.NewWorld(gs)
	if err != nil {
		return nil, err
	}
	by := sim.Acct(4)
	k := attest.K(0)
	in := func(nonce uint64) []byte {
		m, _ := refcodec.EncodeMessage(&refcodec.Message{Version: 0, Source: 7, Dest: 4, Nonce: nonce, Sender: sim.Pad32([]byte{1}), Recip: sim.Pad32([]byte{2}), Caller: make([]byte, 32), Body: []byte("request objects")})
		return m
	}
	own, _ := refcodec.EncodeMessage(&refcodec.Message{Version: 0, Source: 4, Dest: 1, Nonce: 6, Sender: sim.Pad32(sim.AcctBytes(4)), Recip: sim.Pad32([]byte{3}), Caller: sim.Pad32([]byte{0xca}), Body: []byte("the original body, forty-one bytes long..")})
	body, _ := refcodec.EncodeBurn(&refcodec.Burn{Version: 0, BurnToken: attest.Keccak([]byte("uusdc")), MintRecip: sim.Pad32([]byte{9}), Amount: big.NewInt(5), MsgSender: sim.Pad32(sim.AcctBytes(4))})
	dep, _ := refcodec.EncodeMessage(&refcodec.Message{Version: 0, Source: 4, Dest: 0, Nonce: 7, Sender: sim.Pad32(sim.ModuleAddrBytes()), Recip: sim.Pad32([]byte{0xbb, 1}), Caller: make([]byte, 32), Body: body})
	att := func(m []byte, off byte) []byte {
		a := attest.Sign(m, k, attest.SigStyle{})
		a[64] += off
		return a
	}
	blocks := [][]sdk.Msg{
		{
			&types.MsgReceiveMessage{From: by, Message: in(1), Attestation: att(in(1), 54)},
			&types.MsgReceiveMessage{From: by, Message: in(2), Attestation: att(in(2), 81)},
			&types.MsgReplaceMessage{From: by, OriginalMessage: own, OriginalAttestation: att(own, 0), NewMessageBody: []byte("short"), NewDestinationCaller: sim.Pad32([]byte{0xcb})},
		},
		{
			&types.MsgReplaceMessage{From: by, OriginalMessage: own, OriginalAttestation: att(own, 27), NewMessageBody: bytes.Repeat([]byte("a longer body than the original one "), 4), NewDestinationCaller: make([]byte, 32)},
			&types.MsgReplaceDepositForBurn{From: by, OriginalMessage: dep, OriginalAttestation: att(dep, 0), NewDestinationCaller: sim.Pad32([]byte{0xcc}), NewMintRecipient: sim.Pad32([]byte{8})},
			&types.MsgReceiveMessage{From: by, Message: in(1), Attestation: att(in(1), 27)},
		},
		{
			&types.MsgReplaceDepositForBurn{From: by, OriginalMessage: dep, OriginalAttestation: att(dep, 54), NewDestinationCaller: make([]byte, 32), NewMintRecipient: sim.Pad32([]byte{7})},
			&types.MsgReceiveMessage{From: by, Message: in(2), Attestation: att(in(2), 108)},
		},
	}
	c := &c18case{Gen: gs}
	for _, msgs := range blocks {
		blk := c18block{}
		for _, m := range msgs {
			bz, err := w.Chain.EncodeTx([]sdk.Msg{m})
			if err != nil {
				return nil, err
			}
			blk.Txs = append(blk.Txs, hex.EncodeToString(bz))
		}
		c.Blocks = append(c.Blocks, blk)
	}
	return []*c18case{c}, nil
}
