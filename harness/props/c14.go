package props

import (
	"fmt"
	"reflect"
	"strings"

	"github.com/circlefin/noble-cctp/x/cctp/types"
	sdk "github.com/cosmos/cosmos-sdk/types"
	"github.com/cosmos/gogoproto/proto"
	"pgregory.net/rapid"

	"verif/harness/chain"
	"verif/harness/refcodec"
	"verif/harness/sim"
)

// ---- C14: transfers are all-or-nothing under dependency failures -------------------------------------

type c14 struct {
	faulted    int
	lateFail   int // failure after an effective transfer/burn/mint or nonce marking
	natural    int
	succeeded  int
	subsets    map[string]bool
	keys       []string
	lateKinds  map[string]int
}

func (c *c14) Begin(w *sim.World) { c.subsets, c.lateKinds = map[string]bool{}, map[string]int{} }

func transferKinds(msgs []sdk.Msg) (deps, recvs int) {
	for _, m := range msgs {
		switch sim.KindOf(m) {
		case "dep", "depc":
			deps++
		case "recv":
			recvs++
		}
	}
	return
}

func (c *c14) Step(w *sim.World, s *sim.Step) *Viol {
	if s.Op.Kind != "tx" || len(s.Msgs) == 0 {
		return nil
	}
	deps, recvs := transferKinds(s.Msgs)
	if deps+recvs == 0 {
		return nil
	}
	failedCall := ""
	nEff := 0
	for _, cl := range s.Calls {
		if cl.Err != "" && failedCall == "" {
			failedCall = fmt.Sprintf("%s#%d: %s", cl.Kind, cl.Ord, cl.Err)
		}
		if cl.Err == "" {
			nEff++
		}
	}
	if !s.OK() && s.Op.Meta["after-faults"] != "" && s.Op.Meta["after-faults"] != "0" && s.Exp != nil && s.Exp.V == sim.MustSucceed {
		return viol("C14", s.Idx, "the transfer, retried without faults after "+s.Op.Meta["after-faults"]+" rolled-back attempts, fails although every condition holds (something survived the rollbacks)", "success", "failure: "+s.Res.Log)
	}
	if s.OK() {
		// a transfer never succeeds unless every dependency request it made succeeded
		if failedCall != "" {
			return viol("C14", s.Idx, "transaction succeeded although a dependency request failed", "error", "success after "+failedCall)
		}
		if got := len(effective(s.Calls, "transfer")); got != deps {
			return viol("C14", s.Idx, "successful deposits vs effective debits", deps, got)
		}
		if got := len(effective(s.Calls, "burn")); got != deps {
			return viol("C14", s.Idx, "successful deposits vs effective burns", deps, got)
		}
		if len(s.Sent) < deps {
			return viol("C14", s.Idx, "successful deposits vs emitted messages", deps, len(s.Sent))
		}
		// a receive of a burn message never succeeds unless the mint succeeded
		mod := 0
		for _, m := range s.Msgs {
			if rm, ok := m.(*types.MsgReceiveMessage); ok && len(rm.Message) >= 84 && eq(rm.Message[52:84], sim.Pad32(sim.ModuleAddrBytes())) {
				mod++
			}
		}
		if got := len(effective(s.Calls, "mint")); got != mod {
			return viol("C14", s.Idx, "accepted burn messages vs effective mints", mod, got)
		}
		c.succeeded++
		return nil
	}
	// failure: everything is as before
	if v := unchanged("C14", s); v != nil {
		return v
	}
	for _, m := range s.Msgs {
		if rm, ok := m.(*types.MsgReceiveMessage); ok {
			if dm, err := refcodec.DecodeMessage(rm.Message); err == nil {
				was := s.Pre.Used[sim.UsedSpec{Domain: dm.Source, Nonce: dm.Nonce}]
				var resp types.QueryGetUsedNonceResponse
				code, _ := w.Chain.Query("UsedNonce", &types.QueryGetUsedNonceRequest{SourceDomain: dm.Source, Nonce: dm.Nonce}, &resp)
				if (code == 0) != was {
					return viol("C14", s.Idx, fmt.Sprintf("used-nonce query for (%d,%d) after a rolled-back receive", dm.Source, dm.Nonce), fmt.Sprintf("used=%v (as before)", was), fmt.Sprintf("used=%v", code == 0))
				}
			}
		}
	}
	if got, err := queryNext(w); err == nil && got != s.Pre.Next {
		return viol("C14", s.Idx, "next-available-nonce query after a rolled-back transfer", s.Pre.Next, got)
	}
	for _, ev := range s.RawEv {
		if strings.HasPrefix(ev.Type, "circle.cctp") {
			return viol("C14", s.Idx, "rolled-back transaction left a module event in the block", "none", ev.Type)
		}
	}
	if s.Exp != nil && s.Exp.V == sim.MustFail || failedCall != "" {
		// fine: must fail and did
	}
	if len(s.Op.Fault) > 0 {
		c.faulted++
		c.subsets[fmt.Sprint(s.Op.Fault)] = true
	} else if failedCall != "" {
		c.natural++
	}
	marked := false
	for _, wr := range s.Writes {
		if strings.HasPrefix(wr.Key, types.UsedNonceKeyPrefix) || strings.HasPrefix(wr.Key, types.NextAvailableNonceKey) {
			marked = true
		}
	}
	if nEff > 0 || marked {
		c.lateFail++
		kind := "fault-after-effect"
		if failedCall == "" {
			kind = "late-validation:" + strings.Join(s.Exp.Why, ",")
		}
		c.lateKinds[kind]++
		c.keys = append(c.keys, fmt.Sprintf("%s|%v|%s|%d", s.Op.Label, s.Op.Fault, kind, nEff))
	}
	return nil
}

func (c *c14) End(w *sim.World) *Viol { return nil }

func (c *c14) Summary(w *sim.World) (string, []string) {
	var cls []string
	for k := range c.subsets {
		cls = append(cls, "fault-subset:"+k)
	}
	for k := range c.lateKinds {
		if strings.HasPrefix(k, "late-validation:") {
			for _, y := range strings.Split(strings.TrimPrefix(k, "late-validation:"), ",") {
				cls = append(cls, "late:"+y)
			}
		} else {
			cls = append(cls, k)
		}
	}
	if c.natural > 0 {
		cls = append(cls, "natural-dependency-failure")
	}
	if c.succeeded > 0 {
		cls = append(cls, "unfaulted-success")
	}
	if len(c.keys) > 0 {
		cls = append(cls, "nontrivial")
	}
	pre := hashKey(shapeOf(w))
	for i := range c.keys {
		c.keys[i] = pre + "|" + c.keys[i]
	}
	return strings.Join(c.keys, "\x1f"), cls
}

func cloneOp(op *sim.Op) *sim.Op {
	var msgs []sdk.Msg
	for _, m := range op.SdkMsgs() {
		bz, err := proto.Marshal(m)
		if err != nil {
			panic(err)
		}
		n := reflect.New(reflect.TypeOf(m).Elem()).Interface().(sdk.Msg)
		if err := proto.Unmarshal(bz, n); err != nil {
			panic(err)
		}
		msgs = append(msgs, n)
	}
	n := sim.TxOp(op.Label, msgs...)
	for k, v := range op.Meta {
		n.WithMeta(k, v)
	}
	return n
}

// dryRunCalls counts the dependency requests a transaction makes when nothing fails.
func dryRunCalls(w *sim.World, op *sim.Op, tag string) int {
	c := w.Chain
	ctx := c.Branch(tag)
	for _, m := range cloneOp(op).SdkMsgs() {
		h := c.App.MsgServiceRouter().Handler(m)
		failed := false
		func() {
			defer func() {
				if r := recover(); r != nil {
					failed = true
				}
			}()
			if _, err := h(ctx, m); err != nil {
				failed = true
			}
		}()
		if failed {
			break
		}
	}
	return len(c.Ledger.CallsOf(chain.TagOf([]byte(tag))))
}

func driveC14(g *sim.G, exec func(*sim.Op) *Viol) *Viol {
	n := g.Int("rounds", 2, 7)
	for i := 0; i < n; i++ {
		// move the configuration (pause flags, body size, zero messenger, ledger state) or create traffic
		for j := g.Int("setup", 0, 2); j > 0; j-- {
			var op *sim.Op
			switch k := g.Int("setupkind", 0, 9); {
			case k <= 2:
				op = g.AdminOp("cfg", 95, []string{"PauseSendingAndReceivingMessages", "UnpauseSendingAndReceivingMessages", "UnpauseSendingAndReceivingMessages",
					"UpdateMaxMessageBodySize", "PauseBurningAndMinting", "UnpauseBurningAndMinting", "UnpauseBurningAndMinting"})
			case k == 3:
				// a messenger whose address is 32 zero bytes: accepted by the handler, makes deposits fail after the burn
				d := g.Domain("zm/dom")
				op = sim.TxOp("admin:AddRemoteTokenMessenger", &types.MsgAddRemoteTokenMessenger{From: g.W.Model.Roles[0], DomainId: d, Address: make([]byte, 32)})
			case k == 4:
				op = g.LedgerOpDraw("ledger")
			default:
				op = Mix{Send: 2, Recv: 2, Admin: 2, RecvBroken: 30, AdminHolder: 90}.next(g)
			}
			if v := exec(op); v != nil {
				return v
			}
		}
		// the transfer under test
		var cand *sim.Op
		switch k := g.Int("cand", 0, 9); {
		case k <= 3:
			cand = g.DepositOp("dep", 100)
			if g.Pct("badcaller", 15) {
				if m, ok := cand.SdkMsgs()[0].(*types.MsgDepositForBurnWithCaller); ok {
					m.DestinationCaller = g.Bytes("cl", sim.Pick(g, "cll", []int{31, 33}))
					if sim.IsZero(m.DestinationCaller) {
						m.DestinationCaller[0] = 1
					}
				}
			}
		case k <= 6:
			toMod := true
			by := sim.Acct(g.Acct("recv/by"))
			in := g.Inbound("recv", sim.InboundOpts{ToModule: &toMod, Submitter: by})
			att := g.HonestAttestation("recv/att", in.Msg)
			if att == nil {
				att = []byte{}
			}
			cand = sim.TxOp("recv", &types.MsgReceiveMessage{From: by, Message: in.Msg, Attestation: att})
		case k == 7:
			cand = g.DepositOp("dep", 60)
		default:
			a := g.DepositOp("m/dep", 100)
			toMod := true
			by := sim.Acct(g.Acct("m/by"))
			in := g.Inbound("m/recv", sim.InboundOpts{ToModule: &toMod, Submitter: by})
			att := g.HonestAttestation("m/att", in.Msg)
			if att == nil {
				att = []byte{}
			}
			cand = sim.Multi(a, sim.TxOp("recv", &types.MsgReceiveMessage{From: by, Message: in.Msg, Attestation: att}))
		}
		nc := dryRunCalls(g.W, cand, fmt.Sprintf("dry#%d#%d", len(g.W.Steps), i))
		// every non-empty subset of the calls it makes
		for mask := 1; mask < 1<<nc; mask++ {
			var ords []int
			for b := 0; b < nc; b++ {
				if mask&(1<<b) != 0 {
					ords = append(ords, b)
				}
			}
			if v := exec(cloneOp(cand).WithFault(ords...)); v != nil {
				return v
			}
			// the same plan with the last failing call panicking (a dependency that runs out of gas)
			pan := append([]int{}, ords...)
			pan[len(pan)-1] += chain.PanicFaultBase
			if v := exec(cloneOp(cand).WithFault(pan...).WithMeta("panic", "1")); v != nil {
				return v
			}
		}
		if v := exec(cloneOp(cand).WithMeta("after-faults", fmt.Sprint(1<<nc-1))); v != nil {
			return v
		}
	}
	return nil
}

var C14 = register(&HistProp{ID: "C14",
	Genesis: func(t *rapid.T) *sim.GenSpec {
		// a pre-funded module account lets a swallowed transfer failure go on to a successful burn
		return sim.DrawGenesis(t, sim.GenOpts{BigBalances: true, OddMessenger: true, PrefundMod: rapid.IntRange(0, 2).Draw(t, "prefund") == 0})
	},
	Drive: driveC14, MaxOps: 1,
	New:     func() Checker { return &c14{} },
	Require: []string{"nontrivial", "unfaulted-success", "fault-subset:[0]", "fault-subset:[1]", "fault-subset:[0 1]", "fault-after-effect",
		"late:sr-unpaused", "late:body-fits", "late:messenger", "late:caller", "natural-dependency-failure"}})
