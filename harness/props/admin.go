package props

import (
	"fmt"
	"sort"
	"strings"
	"testing"

	"github.com/circlefin/noble-cctp/x/cctp/types"
	sdk "github.com/cosmos/cosmos-sdk/types"
	"pgregory.net/rapid"

	"verif/harness/attest"
	"verif/harness/chain"
	"verif/harness/sim"
)

func isAdmin(m sdk.Msg) bool { return sim.KindOf(m) == "admin" }

func adminType(m sdk.Msg) string {
	return strings.TrimPrefix(strings.TrimPrefix(fmt.Sprintf("%T", m), "*types.Msg"), "*")
}

// requiredHolder returns the account that must submit m in model state pre ("" = nobody can).
func requiredHolder(pre *sim.Model, m sdk.Msg) string {
	slot := sim.RoleSlotOf(adminType(m))
	if slot == 4 {
		if pre.Pending == nil {
			return ""
		}
		return *pre.Pending
	}
	return pre.Roles[slot]
}

// ---- C10 (sampled histories) ------------------------------------------------------------------------

type c10 struct {
	prev map[string]bool // previous holders of any role
	keys []string
	auth int
	cls  map[string]int
}

func (c *c10) Begin(w *sim.World) { c.prev, c.cls = map[string]bool{}, map[string]int{} }

func (c *c10) Step(w *sim.World, s *sim.Step) *Viol {
	if s.Op.Kind != "tx" || len(s.Msgs) != 1 || !isAdmin(s.Msgs[0]) {
		return nil
	}
	m := s.Msgs[0]
	from := sim.FromOf(m)
	holder := requiredHolder(s.Pre, m)
	t := adminType(m)
	if s.OK() && from != holder {
		return viol("C10", s.Idx, t+" took effect for a submitter who does not hold its role", "failure (holder "+holder+")", "success for "+from)
	}
	if from == holder && s.Exp != nil && !s.Exp.Soft && s.Exp.V == sim.MustSucceed && !s.OK() {
		return viol("C10", s.Idx, t+" by the holder of its role with valid arguments must take effect", "success", "failure: "+s.Res.Log)
	}
	if v := unchanged("C10", s); v != nil {
		return v
	}
	holdsSome := false
	for _, r := range s.Pre.Roles {
		if r == from {
			holdsSome = true
		}
	}
	if s.Pre.Pending != nil && *s.Pre.Pending == from {
		holdsSome = true
	}
	switch {
	case from == holder:
		c.auth++
		c.cls["authorised"]++
		c.keys = append(c.keys, "auth|"+t)
	case holdsSome:
		c.cls["wrong-role-holder"]++
		c.keys = append(c.keys, "other|"+t+"|"+from)
	case c.prev[from]:
		c.cls["previous-holder"]++
		c.keys = append(c.keys, "prev|"+t+"|"+from)
	default:
		c.cls["outsider"]++
	}
	// remember holders that lose a role
	for i, r := range s.Pre.Roles {
		if w.Model.Roles[i] != r {
			c.prev[r] = true
		}
	}
	return nil
}

func (c *c10) End(w *sim.World) *Viol { return nil }
func (c *c10) Summary(w *sim.World) (string, []string) {
	var cls []string
	for k := range c.cls {
		cls = append(cls, k)
	}
	if len(c.keys) > 0 {
		cls = append(cls, "nontrivial")
	}
	return strings.Join(c.keys, "\x1f"), cls
}

func isAcct(s string) bool {
	a, err := sdk.AccAddressFromBech32(s)
	return err == nil && sim.AcctOfBytes(a) >= 0
}

var C10 = register(&HistProp{ID: "C10",
	Genesis: func(t *rapid.T) *sim.GenSpec { return sim.DrawGenesis(t, sim.GenOpts{AbsentOpt: true, EmptyRoles: true}) },
	Next: func(g *sim.G, i int) *sim.Op {
		if op := queuedOp(g); op != nil {
			return op
		}
		if g.Pct("rolerollback", 6) {
			ops := roleRollbackProbe(g, "rrb")
			queueOps(g, ops[1:]...)
			return ops[0]
		}
		if i > 0 && g.Pct("restart", 3) {
			// a genesis round trip (possibly with an ownership transfer in flight), then every holder acts
			m := g.W.Model
			for slot := 0; slot < 4; slot++ {
				var types []string
				for _, t := range sim.AdminTypes {
					if sim.RoleSlotOf(t) == slot {
						types = append(types, t)
					}
				}
				if isAcct(m.Roles[slot]) {
					queueOps(g, g.AdminOpOf(fmt.Sprintf("afterrestart%d", slot), sim.Pick(g, fmt.Sprintf("art%d", slot), types), m.Roles[slot]))
				} else {
					// nobody holds the role: the owner (and anybody else) must be refused
					queueOps(g, g.AdminOpOf(fmt.Sprintf("afterrestart%d", slot), sim.Pick(g, fmt.Sprintf("art%d", slot), types), m.Roles[0]))
				}
			}
			if m.Pending != nil {
				if a, err := sdk.AccAddressFromBech32(*m.Pending); err == nil && sim.AcctOfBytes(a) >= 0 {
					queueOps(g, g.AdminOpOf("afterrestart-pending", "UpdateMaxMessageBodySize", *m.Pending))
				}
			}
			return restartOp(g)
		}
		// right after a role moved: the previous holder (and the new one) try an action of that role
		if n := len(g.W.Steps); n > 0 && g.Pct("followup", 50) {
			last := g.W.Steps[n-1]
			if last.Op.Kind == "tx" && last.OK() && last.Pre != nil {
				for slot := 0; slot < 4; slot++ {
					if last.Pre.Roles[slot] != g.W.Model.Roles[slot] || (len(last.Msgs) == 1 && isRoleMsg(last.Msgs[0])) {
						var types []string
						for _, t := range sim.AdminTypes {
							if sim.RoleSlotOf(t) == slot {
								types = append(types, t)
							}
						}
						by := last.Pre.Roles[slot]
						if g.Bool("newholder") {
							by = g.W.Model.Roles[slot]
						}
						if isAcct(by) {
							return g.AdminOpOf("followup", sim.Pick(g, "ftype", types), by)
						}
					}
				}
			}
		}
		if g.Pct("rolechange", 35) {
			return g.AdminOp("role", 80, []string{"UpdateOwner", "AcceptOwner", "UpdateAttesterManager", "UpdatePauser", "UpdateTokenController"})
		}
		return g.AdminOp("admin", 35, nil)
	},
	MinOps: 5, MaxOps: 30, New: func() Checker { return &c10{} },
	Require: []string{"nontrivial", "authorised", "wrong-role-holder", "previous-holder", "outsider"}})

// ---- L1 branch execution (enumerations) --------------------------------------------------------------

// branchExec runs msg through the real message router on a throw-away branch of the
// committed state and reports whether it succeeded and whether it changed any store.
func branchExec(c *chain.Chain, tag string, msg sdk.Msg) (ok bool, changed string, errText string) {
	outer := c.Branch(tag)
	// like baseapp.runMsgs: the message runs on its own cache, written back only on success
	ctx, write := outer.CacheContext()
	h := c.App.MsgServiceRouter().Handler(msg)
	if h == nil {
		panic("no handler for " + sdk.MsgTypeURL(msg))
	}
	func() {
		defer func() {
			if r := recover(); r != nil {
				errText = fmt.Sprintf("panic: %v", r)
			}
		}()
		_, err := h(ctx, msg)
		if err != nil {
			errText = err.Error()
		} else {
			ok = true
			write()
		}
	}()
	pre := append(c.RawKV(c.CctpKey), c.RawKV(c.LedgKey)...)
	post := append(chain.DumpStore(outer.KVStore(c.CctpKey)), chain.DumpStore(outer.KVStore(c.LedgKey))...)
	if !sameDump(pre, post) {
		changed = dumpDelta(pre, post)
	}
	return
}

func enumGenesis(roles [4]int) *sim.GenSpec {
	tok := sim.Pad32([]byte{0xaa, 1})
	msgr := sim.Pad32([]byte{0xbb, 1})
	return &sim.GenSpec{Roles: roles, Attesters: []string{attest.K(0).Spelling(0), attest.K(1).Spelling(1)}, Threshold: 1, MaxBody: 8000,
		Pairs:      []sim.PairSpec{{Domain: 0, Token: sim.Hex(tok), Local: "uusdc"}},
		Messengers: []sim.MsgrSpec{{Domain: 0, Addr: sim.Hex(msgr)}},
		Ledger:     chain.LedgerGenesis{MintingDenom: "uusdc", ModuleIsMinter: true, Allowance: "1000"}}
}

// validAdmin builds a privileged message of type t with arguments that are valid in enumGenesis.
func validAdmin(t, by string, newHolder string) sdk.Msg {
	switch t {
	case "UpdateOwner":
		return &types.MsgUpdateOwner{From: by, NewOwner: newHolder}
	case "AcceptOwner":
		return &types.MsgAcceptOwner{From: by}
	case "UpdateAttesterManager":
		return &types.MsgUpdateAttesterManager{From: by, NewAttesterManager: newHolder}
	case "UpdatePauser":
		return &types.MsgUpdatePauser{From: by, NewPauser: newHolder}
	case "UpdateTokenController":
		return &types.MsgUpdateTokenController{From: by, NewTokenController: newHolder}
	case "UpdateMaxMessageBodySize":
		return &types.MsgUpdateMaxMessageBodySize{From: by, MessageSize: 500}
	case "AddRemoteTokenMessenger":
		return &types.MsgAddRemoteTokenMessenger{From: by, DomainId: 9, Address: sim.Pad32([]byte{0xcc})}
	case "RemoveRemoteTokenMessenger":
		return &types.MsgRemoveRemoteTokenMessenger{From: by, DomainId: 0}
	case "EnableAttester":
		return &types.MsgEnableAttester{From: by, Attester: attest.K(2).Spelling(0)}
	case "DisableAttester":
		return &types.MsgDisableAttester{From: by, Attester: attest.K(1).Spelling(1)}
	case "UpdateSignatureThreshold":
		return &types.MsgUpdateSignatureThreshold{From: by, Amount: 2}
	case "PauseBurningAndMinting":
		return &types.MsgPauseBurningAndMinting{From: by}
	case "UnpauseBurningAndMinting":
		return &types.MsgUnpauseBurningAndMinting{From: by}
	case "PauseSendingAndReceivingMessages":
		return &types.MsgPauseSendingAndReceivingMessages{From: by}
	case "UnpauseSendingAndReceivingMessages":
		return &types.MsgUnpauseSendingAndReceivingMessages{From: by}
	case "LinkTokenPair":
		return &types.MsgLinkTokenPair{From: by, RemoteDomain: 7, RemoteToken: sim.Pad32([]byte{0xdd}), LocalToken: "uusdc"}
	case "UnlinkTokenPair":
		return &types.MsgUnlinkTokenPair{From: by, RemoteDomain: 0, RemoteToken: sim.Pad32([]byte{0xaa, 1}), LocalToken: "uusdc"}
	case "SetMaxBurnAmountPerMessage":
		return &types.MsgSetMaxBurnAmountPerMessage{From: by, LocalToken: "uusdc", Amount: sim.Int(sim.Big("77"))}
	}
	panic(t)
}

// enumFail records a failing enumeration cell as a replayable case.
type enumCell struct {
	Roles   [4]int `json:"roles"`
	Pending int    `json:"pending"` // -1 absent
	Type    string `json:"type"`
	By      int    `json:"by"`
	Odd     bool   `json:"odd_accounts,omitempty"` // the four accounts are X, X||Y1, X||Y2, X||00 (sim.OddAccounts)
}

func c10cell(cell enumCell, c *chain.Chain) *Viol {
	by := sim.Acct(cell.By)
	msg := validAdmin(cell.Type, by, sim.Acct((cell.By+1)%4))
	ok, changed, errText := branchExec(c, "enum", msg)
	slot := sim.RoleSlotOf(cell.Type)
	var holder string
	if slot == 4 {
		if cell.Pending >= 0 {
			holder = sim.Acct(cell.Pending)
		}
	} else {
		holder = sim.Acct(cell.Roles[slot])
	}
	what := fmt.Sprintf("%s by account %d with roles %v pending %d", cell.Type, cell.By, cell.Roles, cell.Pending)
	if by == holder {
		if !ok {
			return viol("C10", 0, what+": the role holder with valid arguments must succeed", "success", "failure: "+errText)
		}
		return nil
	}
	if ok {
		return viol("C10", 0, what+": took effect for a submitter who does not hold its role", "failure", "success")
	}
	if changed != "" {
		return viol("C10", 0, what+": unauthorised transaction changed state", "no change", changed)
	}
	return nil
}

func buildEnumChain(roles [4]int, pending int) (*chain.Chain, error) {
	w, err := sim.NewWorld(enumGenesis(roles))
	if err != nil {
		return nil, err
	}
	if pending >= 0 {
		st := w.Exec(sim.TxOp("setup", &types.MsgUpdateOwner{From: sim.Acct(roles[0]), NewOwner: sim.Acct(pending)}))
		if !st.OK() {
			return nil, fmt.Errorf("setup UpdateOwner failed: %s", st.Res.Log)
		}
	}
	return w.Chain, nil
}

// RunC10Enum is the bounded-exhaustive enumeration: all 4^4 role assignments over 4
// accounts x pending owner in {absent, each account} x 18 types x 4 submitters.
func RunC10Enum(t *testing.T) { runC10Enum(t, false) }

// RunC10EnumOdd: the same enumeration over four accounts whose addresses have 20, 32, 32 and 21 bytes and agree in
// their first 20 (what an interchain or derived account next to an ordinary one looks like): holding a role means
// being that very account.
func RunC10EnumOdd(t *testing.T) { runC10Enum(t, true) }

func runC10Enum(t *testing.T, odd bool) {
	st := newStats("C10")
	st.ID = "C10-enum"
	if odd {
		st.ID = "C10-enum-odd"
		sim.OddAccounts = true
	}
	defer st.Write()
	n := 0
	for a := 0; a < 256; a++ {
		roles := [4]int{a & 3, (a >> 2) & 3, (a >> 4) & 3, (a >> 6) & 3}
		for pending := -1; pending < 4; pending++ {
			c, err := buildEnumChain(roles, pending)
			if err != nil {
				t.Fatalf("HARNESS: %v", err)
			}
			for _, typ := range sim.AdminTypes {
				for by := 0; by < 4; by++ {
					cell := enumCell{Roles: roles, Pending: pending, Type: typ, By: by, Odd: odd}
					if v := c10cell(cell, c); v != nil {
						saveFail("C10", "c10-enum", cell, v)
						t.Fatalf("VIOLATION %s", v)
					}
					n++
					holder := ""
					if slot := sim.RoleSlotOf(typ); slot < 4 {
						holder = sim.Acct(roles[slot])
					} else if pending >= 0 {
						holder = sim.Acct(pending)
					}
					cl := "unauthorised"
					if sim.Acct(by) == holder {
						cl = "authorised"
					}
					cc := cell
					st.Case(fmt.Sprintf("%v|%d|%s|%d|%v", roles, pending, typ, by, odd), func() any { return cc }, cl)
				}
			}
		}
	}
	st.Exhaustive = true
	st.Extra["enumeration"] = fmt.Sprintf("%d triples = 256 role assignments x 5 pending-owner values x 18 types x 4 submitters", n)
}

func init() {
	replayers["c10-enum"] = func(raw []byte) *Viol {
		var cell enumCell
		mustJSON(raw, &cell)
		sim.OddAccounts = cell.Odd
		c, err := buildEnumChain(cell.Roles, cell.Pending)
		if err != nil {
			return nil
		}
		return c10cell(cell, c)
	}
}

// ---- C11: role changes follow the documented lifecycle -------------------------------------------------

func isRoleMsg(m sdk.Msg) bool {
	switch m.(type) {
	case *types.MsgUpdateOwner, *types.MsgAcceptOwner, *types.MsgUpdateAttesterManager, *types.MsgUpdatePauser, *types.MsgUpdateTokenController:
		return true
	}
	return false
}

func c11extra(c *strict, w *sim.World, s *sim.Step) *Viol {
	if s.Op.Kind != "tx" || len(s.Msgs) != 1 {
		return nil
	}
	switch x := s.Msgs[0].(type) {
	case *types.MsgUpdateOwner:
		if s.OK() && s.Pre.Pending != nil && *s.Pre.Pending != x.NewOwner {
			c.classes["supersession"]++
			c.nt = append(c.nt, fmt.Sprintf("supersede|%d", s.Idx))
		}
		if !s.OK() && x.From == s.Pre.Roles[0] {
			c.classes["invalid-new-holder-string"]++
		}
	case *types.MsgAcceptOwner:
		if s.Pre.Pending == nil && c.classes["accepted"] > 0 {
			c.classes["accept-after-cleared"]++
			c.nt = append(c.nt, fmt.Sprintf("replay-accept|%d", s.Idx))
		}
		if x.From == s.Pre.Roles[0] && (s.Pre.Pending == nil || *s.Pre.Pending != x.From) {
			c.classes["accept-by-current-owner"]++
			c.nt = append(c.nt, fmt.Sprintf("owner-accept|%d", s.Idx))
		}
		if s.OK() {
			c.classes["accepted"]++
		}
		if c.classes["supersession"] > 0 && !s.OK() {
			c.classes["accept-by-superseded"]++
		}
	default:
		if !isRoleMsg(s.Msgs[0]) {
			c.classes["unrelated-traffic"]++
		}
	}
	return nil
}

// roleRollbackProbe: a role update by the owner in one transaction with a failing message (so the SDK
// discards it), then the account that was *not* given the role tries an action of that role, then the
// real holder does.
func roleRollbackProbe(g *sim.G, label string) []*sim.Op {
	m := g.W.Model
	slot := g.Int(label+"/slot", 1, 3)
	upd := []string{"", "UpdateAttesterManager", "UpdatePauser", "UpdateTokenController"}[slot]
	x := sim.Acct(g.Acct(label + "/x"))
	if x == m.Roles[slot] {
		x = sim.Acct((sim.AcctOfBytes(sdk.MustAccAddressFromBech32(x)) + 1) % sim.NAccts)
	}
	a := sim.TxOp("admin:"+upd, validAdmin(upd, m.Roles[0], x))
	failer := sim.Acct(g.Acct(label + "/f"))
	if m.Pending != nil && *m.Pending == failer {
		failer = sim.Acct((sim.AcctOfBytes(sdk.MustAccAddressFromBech32(failer)) + 1) % sim.NAccts)
	}
	b := sim.TxOp("admin:AcceptOwner", &types.MsgAcceptOwner{From: failer})
	var acts []string
	for _, t := range sim.AdminTypes {
		if sim.RoleSlotOf(t) == slot {
			acts = append(acts, t)
		}
	}
	ops := []*sim.Op{sim.Multi(a, b), g.AdminOpOf(label+"/byx", sim.Pick(g, label+"/t1", acts), x)}
	if isAcct(m.Roles[slot]) {
		ops = append(ops, g.AdminOpOf(label+"/byholder", sim.Pick(g, label+"/t2", acts), m.Roles[slot]))
	}
	return ops
}

var roleTypes = []string{"UpdateOwner", "UpdateOwner", "AcceptOwner", "AcceptOwner", "UpdateAttesterManager", "UpdatePauser", "UpdateTokenController"}

var C11 = register(&HistProp{ID: "C11",
	Genesis: func(t *rapid.T) *sim.GenSpec { return sim.DrawGenesis(t, sim.GenOpts{AbsentOpt: true}) },
	Next: func(g *sim.G, i int) *sim.Op {
		if op := queuedOp(g); op != nil {
			return op
		}
		if g.Pct("rolerollback", 5) {
			ops := roleRollbackProbe(g, "rrb")
			queueOps(g, ops[1:]...)
			return ops[0]
		}
		if g.Pct("role", 70) {
			return g.AdminOp("role", 60, roleTypes)
		}
		return Mix{Send: 2, Dep: 2, Recv: 2, Replace: 1, RepDep: 1, Admin: 6, DepValid: 80, RecvBroken: 20, ReplaceValid: 80, AdminHolder: 80,
			AdminTypes: sim.AdminTypes[5:]}.next(g)
	},
	MinOps: 4, MaxOps: 30,
	New: func() Checker {
		return &strict{id: "C11", applies: isRoleMsg, extra: c11extra, fields: []string{"roles", "pending"}}
	},
	Require: []string{"nontrivial", "supersession", "accept-after-cleared", "accept-by-current-owner", "invalid-new-holder-string", "unrelated-traffic"}})

// RunC11Closure: bounded-exhaustive closure of the role-state graph over 3 accounts:
// every state (owner, pending in {absent,0,1,2}, attester manager, pauser, token controller)
// x every role action by every account, against the lifecycle automaton.
type c11cell struct {
	Roles   [4]int `json:"roles"`
	Pending int    `json:"pending"`
	Action  string `json:"action"`
	By      int    `json:"by"`
	New     int    `json:"new"`
	Odd     bool   `json:"odd_accounts,omitempty"` // accounts X, X||Y1, X||Y2 (sim.OddAccounts)
}

func c11check(cell c11cell, c *chain.Chain) *Viol {
	by, nw := sim.Acct(cell.By), sim.Acct(cell.New)
	msg := validAdmin(cell.Action, by, nw)
	ctx := c.Branch("c11")
	h := c.App.MsgServiceRouter().Handler(msg)
	_, err := h(ctx, msg)
	ok := err == nil
	// automaton
	roles := [4]string{sim.Acct(cell.Roles[0]), sim.Acct(cell.Roles[1]), sim.Acct(cell.Roles[2]), sim.Acct(cell.Roles[3])}
	pending := ""
	if cell.Pending >= 0 {
		pending = sim.Acct(cell.Pending)
	}
	wantOK := false
	switch cell.Action {
	case "AcceptOwner":
		if pending != "" && by == pending {
			wantOK = true
			roles[0], pending = pending, ""
		}
	case "UpdateOwner":
		if by == roles[0] {
			wantOK = true
			pending = nw
		}
	default:
		if by == roles[0] {
			wantOK = true
			roles[map[string]int{"UpdateAttesterManager": 1, "UpdatePauser": 2, "UpdateTokenController": 3}[cell.Action]] = nw
		}
	}
	what := fmt.Sprintf("%s by %d (new %d) in state roles=%v pending=%d", cell.Action, cell.By, cell.New, cell.Roles, cell.Pending)
	if ok != wantOK {
		return viol("C11", 0, what, fmt.Sprintf("success=%v", wantOK), fmt.Sprintf("success=%v", ok))
	}
	k := c.Keeper
	got := [4]string{k.GetOwner(ctx), k.GetAttesterManager(ctx), k.GetPauser(ctx), k.GetTokenController(ctx)}
	gp, found := k.GetPendingOwner(ctx)
	if !found {
		gp = ""
	}
	if got != roles || gp != pending {
		return viol("C11", 0, what+": resulting role state", fmt.Sprintf("%v pending=%q", roles, pending), fmt.Sprintf("%v pending=%q", got, gp))
	}
	return nil
}

func RunC11Closure(t *testing.T) { runC11Closure(t, false) }

// RunC11ClosureOdd: the closure over three accounts whose addresses (20, 32 and 32 bytes) agree in their first 20.
func RunC11ClosureOdd(t *testing.T) { runC11Closure(t, true) }

func runC11Closure(t *testing.T, odd bool) {
	st := newStats("C11")
	st.ID = "C11-closure"
	if odd {
		st.ID = "C11-closure-odd"
		sim.OddAccounts = true
	}
	defer st.Write()
	actions := []string{"UpdateOwner", "AcceptOwner", "UpdateAttesterManager", "UpdatePauser", "UpdateTokenController"}
	states, trans := 0, 0
	for a := 0; a < 81; a++ {
		roles := [4]int{a % 3, (a / 3) % 3, (a / 9) % 3, (a / 27) % 3}
		for pending := -1; pending < 3; pending++ {
			c, err := buildEnumChain(roles, pending)
			if err != nil {
				t.Fatalf("HARNESS: %v", err)
			}
			states++
			for _, act := range actions {
				for by := 0; by < 3; by++ {
					for nw := 0; nw < 3; nw++ {
						if act == "AcceptOwner" && nw > 0 {
							continue
						}
						cell := c11cell{roles, pending, act, by, nw, odd}
						if v := c11check(cell, c); v != nil {
							saveFail("C11", "c11-closure", cell, v)
							t.Fatalf("VIOLATION %s", v)
						}
						trans++
						cc := cell
						st.Case(fmt.Sprintf("%v", cell), func() any { return cc }, "closure-transition")
					}
				}
			}
		}
	}
	st.Exhaustive = true
	st.Extra["closure"] = fmt.Sprintf("%d role states x role actions = %d transitions over 3 accounts", states, trans)
}

func init() {
	replayers["c11-closure"] = func(raw []byte) *Viol {
		var cell c11cell
		mustJSON(raw, &cell)
		sim.OddAccounts = cell.Odd
		c, err := buildEnumChain(cell.Roles, cell.Pending)
		if err != nil {
			return nil
		}
		return c11check(cell, c)
	}
}

// ---- C12: pausing stops exactly the flows it names ----------------------------------------------------

func flowName(s *sim.Step) string {
	if len(s.Msgs) != 1 {
		return ""
	}
	k := sim.KindOf(s.Msgs[0])
	if k == "recv" {
		rm := s.Msgs[0].(*types.MsgReceiveMessage)
		if len(rm.Message) >= 84 && eq(rm.Message[52:84], sim.Pad32(sim.ModuleAddrBytes())) {
			return "receive-module"
		}
		return "receive-other"
	}
	if k == "admin" {
		return ""
	}
	return k
}

func c12extra(c *strict, w *sim.World, s *sim.Step) *Viol {
	if s.Op.Kind != "tx" || len(s.Msgs) != 1 {
		return nil
	}
	if f := flowName(s); f != "" {
		blocked := s.Pre.SR
		switch f {
		case "dep", "depc", "repdep", "receive-module":
			blocked = blocked || s.Pre.BM
		}
		// table oracle, independent of the model's condition lists
		if blocked && s.OK() {
			return viol("C12", s.Idx, fmt.Sprintf("flow %s while SR=%v BM=%v", f, s.Pre.SR, s.Pre.BM), "blocked", "succeeded")
		}
		if s.Op.Meta["valid"] != "1" {
			return nil // only the "must fail while paused" direction is judged for arbitrary inputs
		}
		if !blocked && !s.OK() && s.Exp != nil && s.Exp.V == sim.MustSucceed {
			return viol("C12", s.Idx, fmt.Sprintf("flow %s with valid input while SR=%v BM=%v must not be blocked", f, s.Pre.SR, s.Pre.BM), "success", "failure: "+s.Res.Log)
		}
		cell := fmt.Sprintf("cell:SR=%v,BM=%v:%s", s.Pre.SR, s.Pre.BM, f)
		if s.Exp != nil && s.Exp.V != sim.Unspecified {
			c.classes[cell]++
			if !c.seen[cell] {
				c.seen[cell] = true
				c.nt = append(c.nt, cell+fmt.Sprint(s.OK()))
			}
		}
	}
	if isAdmin(s.Msgs[0]) && (s.Pre.SR || s.Pre.BM) {
		if s.OK() {
			c.classes["admin-action-while-paused"]++
		} else if s.Exp != nil && !s.Exp.Soft && s.Exp.V == sim.MustSucceed {
			return viol("C12", s.Idx, "administrative action "+s.Op.Label+" must stay available while paused", "success", "failure: "+s.Res.Log)
		}
	}
	switch s.Msgs[0].(type) {
	case *types.MsgPauseBurningAndMinting, *types.MsgPauseSendingAndReceivingMessages:
		if s.OK() {
			c.classes["pause"]++
			if (s.Pre.BM && w.Model.BM && s.Pre.SR == w.Model.SR) || (s.Pre.SR && w.Model.SR && s.Pre.BM == w.Model.BM) {
				c.classes["idempotent-pause"]++
			}
		}
	case *types.MsgUnpauseBurningAndMinting, *types.MsgUnpauseSendingAndReceivingMessages:
		if s.OK() {
			c.classes["unpause"]++
		}
	}
	// flag queries after every transaction
	var r1 types.QueryGetBurningAndMintingPausedResponse
	var r2 types.QueryGetSendingAndReceivingMessagesPausedResponse
	if code, lg := w.Chain.Query("BurningAndMintingPaused", &types.QueryGetBurningAndMintingPausedRequest{}, &r1); code != 0 {
		return viol("C12", s.Idx, "burning-and-minting-paused query", "answer", lg)
	}
	if code, lg := w.Chain.Query("SendingAndReceivingMessagesPaused", &types.QueryGetSendingAndReceivingMessagesPausedRequest{}, &r2); code != 0 {
		return viol("C12", s.Idx, "sending-and-receiving-paused query", "answer", lg)
	}
	if r1.Paused.Paused != w.Model.BM || r2.Paused.Paused != w.Model.SR {
		return viol("C12", s.Idx, "pause flags after "+s.Op.Label+" (each flag changes only by the pauser's action on that flag)",
			fmt.Sprintf("BM=%v SR=%v", w.Model.BM, w.Model.SR), fmt.Sprintf("BM=%v SR=%v", r1.Paused.Paused, r2.Paused.Paused))
	}
	return nil
}

// validFlow draws one of the eight user-facing flows with otherwise valid input.
func validFlow(g *sim.G) *sim.Op {
	m := g.W.Model
	by := sim.Acct(g.Acct("flow/by"))
	var op *sim.Op
	switch f := g.Int("flow", 0, 7); f {
	case 0:
		body := g.Bytes("flow/body", g.Int("flow/bl", 0, 64))
		op = sim.TxOp("send", &types.MsgSendMessage{From: by, DestinationDomain: g.Domain("flow/dom"), Recipient: g.NonZero32("flow/rc", by), MessageBody: body})
	case 1:
		body := g.Bytes("flow/body", g.Int("flow/bl", 0, 64))
		op = sim.TxOp("sendc", &types.MsgSendMessageWithCaller{From: by, DestinationDomain: g.Domain("flow/dom"), Recipient: g.NonZero32("flow/rc", by), MessageBody: body, DestinationCaller: g.NonZero32("flow/cl", by)})
	case 2, 3:
		op = g.DepositOp("flow/dep", 100)
		if f == 3 && op.Label == "dep" || f == 2 && op.Label == "depc" {
			// keep whatever variant was drawn; both are flows of the table
		}
	case 4:
		op = g.ValidReplaceOp("flow/rep", by)
	case 5:
		op = g.ValidRepDepOp("flow/repdep", by)
	default:
		toMod := f == 7
		in := g.Inbound("flow/in", sim.InboundOpts{ToModule: &toMod, Submitter: by})
		att := g.HonestAttestation("flow/att", in.Msg)
		if att == nil {
			att = []byte{}
		}
		op = sim.TxOp("recv", &types.MsgReceiveMessage{From: by, Message: in.Msg, Attestation: att})
		if toMod {
			op.WithMeta("module", "1")
		}
	}
	_ = m
	return op.WithMeta("valid", "1")
}

var pauseTypes = []string{"PauseBurningAndMinting", "UnpauseBurningAndMinting", "PauseSendingAndReceivingMessages", "UnpauseSendingAndReceivingMessages"}

var C12 = register(&HistProp{ID: "C12",
	Genesis: func(t *rapid.T) *sim.GenSpec {
		g := sim.DrawGenesis(t, sim.GenOpts{NoPause: true, BigBalances: true, NoAttesters: true})
		g.BMPaused = rapid.Bool().Draw(t, "gen-bm")
		g.SRPaused = rapid.Bool().Draw(t, "gen-sr")
		g.MaxBody = 8000
		// a young chain: no remote token messenger (and no pair) registered yet
		if rapid.IntRange(0, 7).Draw(t, "gen-nomsgr") == 0 {
			g.Messengers, g.Pairs = nil, nil
		}
		// a flag left out of the genesis file starts paused, whatever the other flag says
		if rapid.IntRange(0, 5).Draw(t, "gen-absent") == 0 {
			for _, f := range []string{"bm", "sr"} {
				if rapid.Bool().Draw(t, "absent-"+f) {
					g.Absent = append(g.Absent, f)
				}
			}
		}
		return g
	},
	Next: func(g *sim.G, i int) *sim.Op {
		if op := queuedOp(g); op != nil {
			return op
		}
		if m := g.W.Model; len(m.Msgrs) == 0 {
			// nothing can be deposited or minted yet: the owner registers a messenger, the token controller links a pair
			queueOps(g, sim.TxOp("admin:LinkTokenPair", &types.MsgLinkTokenPair{From: m.Roles[3], RemoteDomain: 0, RemoteToken: sim.Pad32([]byte{0xaa, 7}), LocalToken: m.L.Denom}))
			return sim.TxOp("admin:AddRemoteTokenMessenger", &types.MsgAddRemoteTokenMessenger{From: m.Roles[0], DomainId: 0, Address: sim.Pad32([]byte{0xbb, 7})})
		}
		if g.Pct("pauserollback", 6) {
			// the pauser's pause/unpause(s) in one transaction with a failing message: discarded by the SDK
			m := g.W.Model
			var ops []*sim.Op
			for j, n := 0, g.Int("npause", 1, 2); j < n; j++ {
				ops = append(ops, g.AdminOpOf("prb", sim.Pick(g, "prbt", pauseTypes), m.Roles[2]))
			}
			failer := sim.Acct(g.Acct("prb/f"))
			if m.Pending != nil && *m.Pending == failer {
				failer = sim.Acct((sim.AcctOfBytes(sdk.MustAccAddressFromBech32(failer)) + 1) % sim.NAccts)
			}
			ops = append(ops, sim.TxOp("admin:AcceptOwner", &types.MsgAcceptOwner{From: failer}))
			queueOps(g, validFlow(g), validFlow(g))
			return sim.Multi(ops...)
		}
		switch k := g.Int("kind", 0, 9); {
		case k <= 2:
			return g.AdminOp("pause", 75, pauseTypes)
		case k <= 7:
			return validFlow(g)
		default:
			return g.AdminOp("admin", 90, nil)
		}
	},
	MinOps: 4, MaxOps: 30,
	New: func() Checker {
		return &strict{id: "C12", applies: func(m sdk.Msg) bool {
			switch m.(type) {
			case *types.MsgPauseBurningAndMinting, *types.MsgUnpauseBurningAndMinting, *types.MsgPauseSendingAndReceivingMessages, *types.MsgUnpauseSendingAndReceivingMessages:
				return true
			}
			return false // flows are judged by the table oracle in c12extra, other admin actions only for availability
		}, extra: c12extra, fields: []string{"flags"}}
	},
	Require: c12required()})

func c12required() []string {
	req := []string{"nontrivial", "admin-action-while-paused", "idempotent-pause", "unpause"}
	for _, sr := range []bool{false, true} {
		for _, bm := range []bool{false, true} {
			for _, f := range []string{"send", "sendc", "dep", "depc", "replace", "repdep", "receive-other", "receive-module"} {
				req = append(req, fmt.Sprintf("cell:SR=%v,BM=%v:%s", sr, bm, f))
			}
		}
	}
	return req
}

// ---- C13: the enabled attesters can always meet the threshold ------------------------------------------

func isAttMsg(m sdk.Msg) bool {
	switch m.(type) {
	case *types.MsgEnableAttester, *types.MsgDisableAttester, *types.MsgUpdateSignatureThreshold:
		return true
	}
	return false
}

func c13extra(c *strict, w *sim.World, s *sim.Step) *Viol {
	// invariant 1 <= threshold <= number of attester entries, read from the chain
	var ar types.QueryAllAttestersResponse
	var tr types.QueryGetSignatureThresholdResponse
	if code, lg := w.Chain.Query("Attesters", &types.QueryAllAttestersRequest{}, &ar); code != 0 {
		return viol("C13", s.Idx, "attesters query", "answer", lg)
	}
	if code, lg := w.Chain.Query("SignatureThreshold", &types.QueryGetSignatureThresholdRequest{}, &tr); code != 0 {
		return viol("C13", s.Idx, "threshold query", "answer", lg)
	}
	n, t := len(ar.Attesters), int(tr.Amount.Amount)
	if t < 1 || t > n {
		return viol("C13", s.Idx, "1 <= threshold <= number of enabled attesters after "+s.Op.Label, "invariant", fmt.Sprintf("threshold=%d attesters=%d", t, n))
	}
	if s.Op.Kind == "tx" && len(s.Msgs) == 1 && isAttMsg(s.Msgs[0]) && sim.FromOf(s.Msgs[0]) == s.Pre.Roles[1] {
		pn, pt := len(s.Pre.Atts), int(s.Pre.Thr)
		var cl string
		switch x := s.Msgs[0].(type) {
		case *types.MsgDisableAttester:
			if s.Pre.Atts[x.Attester] {
				switch {
				case pn == 1:
					cl = "disable-last"
				case pn == pt:
					cl = "disable-at-threshold"
				case pn == pt+1:
					cl = "disable-just-above-threshold"
				}
			} else {
				cl = "disable-unknown"
			}
		case *types.MsgEnableAttester:
			if s.Pre.Atts[x.Attester] {
				cl = "enable-duplicate"
			}
		case *types.MsgUpdateSignatureThreshold:
			switch int(x.Amount) {
			case 0:
				cl = "threshold-zero"
			case pn:
				cl = "threshold=n"
			case pn + 1:
				cl = "threshold=n+1"
			case pt:
				cl = "threshold-unchanged"
			}
		}
		if cl != "" {
			c.classes[cl]++
			c.nt = append(c.nt, fmt.Sprintf("%s|n=%d|t=%d|%v", cl, pn, pt, s.OK()))
		}
	}
	// distinct-signer observation (reported, not judged)
	if len(w.EnabledKeys()) < int(w.Model.Thr) {
		c.classes["observation:entries>=threshold-but-distinct-keys<threshold"]++
	}
	return nil
}

var C13 = register(&HistProp{ID: "C13",
	Genesis: func(t *rapid.T) *sim.GenSpec { return sim.DrawGenesis(t, sim.GenOpts{MaxAtt: 5, AbsentOpt: true, Decoys: true}) },
	Next: func(g *sim.G, i int) *sim.Op {
		if op := queuedOp(g); op != nil {
			return op
		}
		if i > 0 && g.Pct("restart", 3) {
			return restartOp(g)
		}
		if g.Pct("attrollback", 7) {
			// an attester-set change and a failing message that reads the set in one transaction (the
			// SDK discards both), then the boundary actions for the set as it really is
			m := g.W.Model
			ops := rollbackProbeOf(g, "rb", []string{"EnableAttester", "EnableAttester", "DisableAttester", "UpdateSignatureThreshold"})
			n := uint32(len(m.Atts))
			if l := m.AttesterList(); len(l) > 0 {
				ops = append(ops, sim.TxOp("admin:DisableAttester", &types.MsgDisableAttester{From: m.Roles[1], Attester: sim.Pick(g, "rb/dis", l)}))
			}
			ops = append(ops, sim.TxOp("admin:UpdateSignatureThreshold", &types.MsgUpdateSignatureThreshold{From: m.Roles[1], Amount: n + uint32(g.Int("rb/thr", 0, 1))}))
			queueOps(g, ops[1:]...)
			return ops[0]
		}
		if g.Pct("att", 85) {
			return g.AdminOp("att", 85, []string{"EnableAttester", "DisableAttester", "DisableAttester", "UpdateSignatureThreshold"})
		}
		return g.AdminOp("admin", 80, nil)
	},
	MinOps: 4, MaxOps: 40,
	New: func() Checker {
		return &strict{id: "C13", applies: isAttMsg, extra: c13extra, fields: []string{"attesters", "threshold"}}
	},
	Require: []string{"nontrivial", "disable-last", "disable-at-threshold", "threshold=n", "threshold=n+1", "enable-duplicate", "disable-unknown", "threshold-zero"}})

// RunC13Closure enumerates the closed state graph over a universe of 4 keys.
type c13cell struct {
	Set       int    `json:"set"` // bitmask of enabled keys
	Threshold uint32 `json:"threshold"`
	Action    string `json:"action"` // enable|disable|update
	Arg       int    `json:"arg"`
	Manager   bool   `json:"by_manager"`
}

func c13chain(set int, thr uint32) (*chain.Chain, error) {
	g := enumGenesis([4]int{0, 1, 2, 3})
	g.Attesters = nil
	for k := 0; k < 4; k++ {
		if set&(1<<k) != 0 {
			g.Attesters = append(g.Attesters, attest.K(k).Spelling(0))
		}
	}
	g.Threshold = thr
	w, err := sim.NewWorld(g)
	if err != nil {
		return nil, err
	}
	return w.Chain, nil
}

func popcount(x int) int {
	n := 0
	for ; x != 0; x &= x - 1 {
		n++
	}
	return n
}

func c13check(cell c13cell, c *chain.Chain) (v *Viol, nextSet int, nextThr uint32) {
	by := sim.Acct(1)
	if !cell.Manager {
		by = sim.Acct(0)
	}
	n := popcount(cell.Set)
	wantOK := cell.Manager
	nextSet, nextThr = cell.Set, cell.Threshold
	var msg sdk.Msg
	switch cell.Action {
	case "enable":
		msg = &types.MsgEnableAttester{From: by, Attester: attest.K(cell.Arg).Spelling(0)}
		if cell.Set&(1<<cell.Arg) != 0 {
			wantOK = false
		}
		if wantOK {
			nextSet |= 1 << cell.Arg
		}
	case "disable":
		msg = &types.MsgDisableAttester{From: by, Attester: attest.K(cell.Arg).Spelling(0)}
		if cell.Set&(1<<cell.Arg) == 0 || n <= 1 || n <= int(cell.Threshold) {
			wantOK = false
		}
		if wantOK {
			nextSet &^= 1 << cell.Arg
		}
	case "update":
		msg = &types.MsgUpdateSignatureThreshold{From: by, Amount: uint32(cell.Arg)}
		if cell.Arg == 0 || uint32(cell.Arg) == cell.Threshold || cell.Arg > n {
			wantOK = false
		}
		if wantOK {
			nextThr = uint32(cell.Arg)
		}
	}
	ctx := c.Branch("c13")
	_, err := c.App.MsgServiceRouter().Handler(msg)(ctx, msg)
	ok := err == nil
	what := fmt.Sprintf("%s(%d) by manager=%v in state set=%04b threshold=%d", cell.Action, cell.Arg, cell.Manager, cell.Set, cell.Threshold)
	if ok != wantOK {
		return viol("C13", 0, what, fmt.Sprintf("success=%v", wantOK), fmt.Sprintf("success=%v (%v)", ok, err)), 0, 0
	}
	var got []string
	for _, a := range c.Keeper.GetAllAttesters(ctx) {
		got = append(got, a.Attester)
	}
	sort.Strings(got)
	var want []string
	for k := 0; k < 4; k++ {
		if nextSet&(1<<k) != 0 {
			want = append(want, attest.K(k).Spelling(0))
		}
	}
	sort.Strings(want)
	thr, _ := c.Keeper.GetSignatureThreshold(ctx)
	if fmt.Sprint(got) != fmt.Sprint(want) || thr.Amount != nextThr {
		return viol("C13", 0, what+": resulting state", fmt.Sprintf("%v t=%d", want, nextThr), fmt.Sprintf("%v t=%d", got, thr.Amount)), 0, 0
	}
	if nextThr < 1 || int(nextThr) > popcount(nextSet) {
		return viol("C13", 0, what+": invariant 1<=threshold<=attesters", "holds", fmt.Sprintf("set=%04b t=%d", nextSet, nextThr)), 0, 0
	}
	return nil, nextSet, nextThr
}

func RunC13Closure(t *testing.T) {
	st := newStats("C13")
	st.ID = "C13-closure"
	defer st.Write()
	type state struct {
		set int
		thr uint32
	}
	seen := map[state]bool{}
	var queue []state
	for set := 1; set < 16; set++ {
		for thr := 1; thr <= popcount(set); thr++ {
			s := state{set, uint32(thr)}
			seen[s] = true
			queue = append(queue, s)
		}
	}
	trans := 0
	for len(queue) > 0 {
		s := queue[0]
		queue = queue[1:]
		c, err := c13chain(s.set, s.thr)
		if err != nil {
			t.Fatalf("HARNESS: %v", err)
		}
		var cells []c13cell
		for _, mgr := range []bool{true, false} {
			for k := 0; k < 4; k++ {
				cells = append(cells, c13cell{s.set, s.thr, "enable", k, mgr}, c13cell{s.set, s.thr, "disable", k, mgr})
			}
			for _, a := range []int{0, 1, 2, 3, 4, 5, 1<<31 - 1, 1 << 31, 1<<31 + 1, 1<<31 + 4, 1<<31 + 5, 1<<32 - 1} {
				cells = append(cells, c13cell{s.set, s.thr, "update", a, mgr})
			}
		}
		for _, cell := range cells {
			v, ns, nt := c13check(cell, c)
			if v != nil {
				saveFail("C13", "c13-closure", cell, v)
				t.Fatalf("VIOLATION %s", v)
			}
			trans++
			n := popcount(s.set)
			boundary := n == int(s.thr) || n == 1 || (cell.Action == "update" && (cell.Arg == n || cell.Arg == n+1 || uint32(cell.Arg) == s.thr))
			key := ""
			if boundary {
				key = fmt.Sprintf("%v", cell)
			}
			cc := cell
			st.Case(key, func() any { return cc }, "closure-transition")
			if nx := (state{ns, nt}); !seen[nx] {
				seen[nx] = true
				queue = append(queue, nx)
			}
		}
	}
	st.Exhaustive = true
	st.Extra["closure"] = fmt.Sprintf("%d states (every non-empty subset of 4 keys x threshold 1..n), %d transitions, closed", len(seen), trans)
}

func init() {
	replayers["c13-closure"] = func(raw []byte) *Viol {
		var cell c13cell
		mustJSON(raw, &cell)
		c, err := c13chain(cell.Set, cell.Threshold)
		if err != nil {
			return nil
		}
		v, _, _ := c13check(cell, c)
		return v
	}
}
