package props

import (
	"github.com/circlefin/noble-cctp/x/cctp/types"
	"encoding/hex"
	"fmt"
	"math/big"
	"sort"
	"strings"

	"verif/harness/sim"
)

// stateDiff compares the chain's exported state (the module's own ExportGenesis
// through its JSON path, the pending-owner slot read through the keeper, and the
// ledger store) with the reference model. It returns differences as
// "field: model=.. chain=.." strings, restricted to the requested fields.
//
// fields: roles pending flags maxbody next threshold attesters limits pairs messengers used ledger
func stateDiff(w *sim.World, fields ...string) []string {
	want := map[string]bool{}
	for _, f := range fields {
		want[f] = true
	}
	all := len(fields) == 0
	var out []string
	add := func(field string, model, chain any) {
		ms, cs := fmt.Sprint(model), fmt.Sprint(chain)
		if ms != cs {
			out = append(out, fmt.Sprintf("%s: model=%s chain=%s", field, ms, cs))
		}
	}
	m := w.Model
	g, err := w.Chain.Export()
	if err != nil {
		return []string{"export failed: " + err.Error()}
	}
	if all || want["roles"] {
		add("owner", m.Roles[0], g.Owner)
		add("attester-manager", m.Roles[1], g.AttesterManager)
		add("pauser", m.Roles[2], g.Pauser)
		add("token-controller", m.Roles[3], g.TokenController)
	}
	if all || want["pending"] {
		p, found := w.Chain.Keeper.GetPendingOwner(w.Chain.CommittedCtx())
		mp := "<absent>"
		if m.Pending != nil {
			mp = "set:" + *m.Pending
		}
		cp := "<absent>"
		if found {
			cp = "set:" + p
		}
		add("pending-owner", mp, cp)
	}
	if all || want["flags"] {
		add("burning-and-minting-paused", m.BM, g.BurningAndMintingPaused != nil && g.BurningAndMintingPaused.Paused)
		add("sending-and-receiving-paused", m.SR, g.SendingAndReceivingMessagesPaused != nil && g.SendingAndReceivingMessagesPaused.Paused)
	}
	if all || want["maxbody"] {
		var v any = "<absent>"
		if g.MaxMessageBodySize != nil {
			v = g.MaxMessageBodySize.Amount
		}
		add("max-message-body-size", m.MaxBody, v)
	}
	if all || want["next"] {
		var v any = "<absent>"
		if g.NextAvailableNonce != nil {
			v = g.NextAvailableNonce.Nonce
		}
		add("next-available-nonce", m.Next, v)
	}
	if all || want["threshold"] {
		var v any = "<absent>"
		if g.SignatureThreshold != nil {
			v = g.SignatureThreshold.Amount
		}
		add("signature-threshold", m.Thr, v)
	}
	if all || want["attesters"] {
		var cs []string
		for _, a := range g.AttesterList {
			cs = append(cs, a.Attester)
		}
		sort.Strings(cs)
		add("attesters", strings.Join(m.AttesterList(), ","), strings.Join(cs, ","))
	}
	if all || want["limits"] {
		var ms, cs []string
		for d, a := range m.Limits {
			ms = append(ms, d+"="+a.String())
		}
		for _, l := range g.PerMessageBurnLimitList {
			cs = append(cs, l.Denom+"="+l.Amount.String())
		}
		sort.Strings(ms)
		sort.Strings(cs)
		add("burn-limits", strings.Join(ms, ","), strings.Join(cs, ","))
	}
	if all || want["pairs"] {
		var ms, cs []string
		for _, p := range m.Pairs {
			ms = append(ms, fmt.Sprintf("%d/%x=%s", p.Domain, p.Token, p.Local))
		}
		for _, p := range g.TokenPairList {
			cs = append(cs, fmt.Sprintf("%d/%x=%s", p.RemoteDomain, p.RemoteToken, p.LocalToken))
		}
		sort.Strings(ms)
		sort.Strings(cs)
		add("token-pairs", strings.Join(ms, ","), strings.Join(cs, ","))
	}
	if all || want["messengers"] {
		var ms, cs []string
		for d, a := range m.Msgrs {
			ms = append(ms, fmt.Sprintf("%d=%x", d, a))
		}
		for _, p := range g.TokenMessengerList {
			cs = append(cs, fmt.Sprintf("%d=%x", p.DomainId, p.Address))
		}
		sort.Strings(ms)
		sort.Strings(cs)
		add("token-messengers", strings.Join(ms, ","), strings.Join(cs, ","))
	}
	if all || want["used"] {
		var ms, cs []string
		for u := range m.Used {
			ms = append(ms, fmt.Sprintf("%d/%d", u.Domain, u.Nonce))
		}
		for _, u := range g.UsedNoncesList {
			cs = append(cs, fmt.Sprintf("%d/%d", u.SourceDomain, u.Nonce))
		}
		sort.Strings(ms)
		sort.Strings(cs)
		add("used-nonces", strings.Join(ms, ","), strings.Join(cs, ","))
	}
	if all || want["ledger"] {
		out = append(out, ledgerDiff(w)...)
	}
	return out
}

// parseLedger turns a ledger store dump into key -> decimal value (string keys decoded).
func parseLedger(dump []string) map[string]string {
	out := map[string]string{}
	for _, kv := range dump {
		i := strings.IndexByte(kv, '=')
		k, _ := hex.DecodeString(kv[:i])
		v, _ := hex.DecodeString(kv[i+1:])
		out[string(k)] = string(v)
	}
	return out
}

func ledgerDiff(w *sim.World) []string {
	var out []string
	led := parseLedger(w.Chain.RawKV(w.Chain.LedgKey))
	l := &w.Model.L
	exp := map[string]string{}
	for k, v := range l.Bal {
		if v.Sign() != 0 {
			exp["bal/"+k] = v.String()
		}
	}
	for d, v := range l.Supply {
		if v.Sign() != 0 {
			exp["sup/"+d] = v.String()
		}
	}
	if l.Allow.Sign() != 0 {
		exp["cfg/allowance"] = l.Allow.String()
	}
	if l.Burned.Sign() != 0 {
		exp["burned/"+l.NDenom()] = l.Burned.String()
	}
	if l.Minted.Sign() != 0 {
		exp["minted/"+l.NDenom()] = l.Minted.String()
	}
	keys := map[string]bool{}
	for k := range exp {
		keys[k] = true
	}
	for k := range led {
		if strings.HasPrefix(k, "bal/") || strings.HasPrefix(k, "sup/") || k == "cfg/allowance" || strings.HasPrefix(k, "burned/") || strings.HasPrefix(k, "minted/") {
			keys[k] = true
		}
	}
	var ks []string
	for k := range keys {
		ks = append(ks, k)
	}
	sort.Strings(ks)
	for _, k := range ks {
		if exp[k] != led[k] {
			out = append(out, fmt.Sprintf("ledger %s: model=%q chain=%q", k, exp[k], led[k]))
		}
	}
	return out
}

// balancesOf extracts "addrhex/denom" -> amount from a ledger dump.
func balancesOf(dump []string) map[string]*big.Int {
	out := map[string]*big.Int{}
	for k, v := range parseLedger(dump) {
		if strings.HasPrefix(k, "bal/") {
			n, _ := new(big.Int).SetString(v, 10)
			out[k[4:]] = n
		}
	}
	return out
}

func ledgerInt(dump []string, key string) *big.Int {
	if v, ok := parseLedger(dump)[key]; ok {
		n, _ := new(big.Int).SetString(v, 10)
		return n
	}
	return new(big.Int)
}

func sameDump(a, b []string) bool {
	if len(a) != len(b) {
		return false
	}
	for i := range a {
		if a[i] != b[i] {
			return false
		}
	}
	return true
}

func dumpDelta(a, b []string) string {
	am, bm := map[string]bool{}, map[string]bool{}
	for _, x := range a {
		am[x] = true
	}
	for _, x := range b {
		bm[x] = true
	}
	var out []string
	for _, x := range a {
		if !bm[x] {
			out = append(out, "-"+decodeKV(x))
		}
	}
	for _, x := range b {
		if !am[x] {
			out = append(out, "+"+decodeKV(x))
		}
	}
	return strings.Join(out, " ")
}

func decodeKV(kv string) string {
	i := strings.IndexByte(kv, '=')
	k, _ := hex.DecodeString(kv[:i])
	return fmt.Sprintf("%q=%s", string(k), kv[i+1:])
}

// strictVerdict compares the observed outcome with a non-soft model verdict.
func strictVerdict(id string, s *sim.Step) *Viol {
	if s.Exp == nil || s.Exp.Soft {
		return nil
	}
	switch {
	case s.Exp.V == sim.MustSucceed && !s.OK():
		return viol(id, s.Idx, "transaction must succeed (all documented conditions hold) but failed: "+s.Op.Label, "success", "failure: "+s.Res.Log)
	case s.Exp.V == sim.MustFail && s.OK():
		return viol(id, s.Idx, "transaction must fail (false: "+strings.Join(s.Exp.Why, ",")+") but succeeded: "+s.Op.Label, "failure", "success")
	}
	return nil
}

// recvResponses: a receive that went through says so in its response (success = true).
func recvResponses(id string, s *sim.Step) *Viol {
	if s.Op.Kind != "tx" || !s.OK() {
		return nil
	}
	for i, m := range s.Msgs {
		if _, ok := m.(*types.MsgReceiveMessage); !ok || i >= len(s.Res.Resps) {
			continue
		}
		if r, ok := s.Res.Resps[i].(*types.MsgReceiveMessageResponse); ok && !r.Success {
			return viol(id, s.Idx, "response of a receive that was executed and committed", "success=true", "success=false")
		}
	}
	return nil
}

// unchanged asserts that a failed single-transaction block left both stores as they were.
func unchanged(id string, s *sim.Step) *Viol {
	if !s.Single || s.OK() {
		return nil
	}
	if !sameDump(s.PreKV, s.PostKV) {
		return viol(id, s.Idx, "failed transaction changed module state: "+s.Op.Label, "no change", dumpDelta(s.PreKV, s.PostKV))
	}
	if !sameDump(s.PreLed, s.PostLed) {
		return viol(id, s.Idx, "failed transaction changed the ledger: "+s.Op.Label, "no change", dumpDelta(s.PreLed, s.PostLed))
	}
	return nil
}
