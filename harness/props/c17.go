package props

import (
	"math/big"
	"bufio"
	"encoding/json"
	"fmt"
	"os"
	"regexp"
	"sort"
	"strings"
	"sync"
	"testing"

	"github.com/circlefin/noble-cctp/x/cctp/types"
	"pgregory.net/rapid"

	"verif/harness/attest"
	"verif/harness/chain"
	"verif/harness/sim"
)

// ---- known findings ------------------------------------------------------------------------------------

type knownFinding struct{ Property, ID, Match, Text string }

var (
	knownOnce sync.Once
	knownList []knownFinding
)

var knownRe = regexp.MustCompile(`^known:\s+property=(\S+)\s+id=(\S+)\s+match=(\S+)\s+(.*)$`)

func knownFindings() []knownFinding {
	knownOnce.Do(func() {
		f, err := os.Open(os.Getenv("VERIF_KNOWN"))
		if err != nil {
			return
		}
		defer f.Close()
		sc := bufio.NewScanner(f)
		for sc.Scan() {
			if m := knownRe.FindStringSubmatch(strings.TrimSpace(sc.Text())); m != nil {
				knownList = append(knownList, knownFinding{m[1], m[2], m[3], m[4]})
			}
		}
	})
	return knownList
}

// isKnown reports whether a violation signature is listed for the property.
func isKnown(prop, sig string) *knownFinding {
	for i, k := range knownFindings() {
		if k.Property == prop && k.Match == sig {
			return &knownFindings()[i]
		}
	}
	return nil
}

// ---- C17: genesis import/export preserves state; validation rejects ambiguity ----------------------------

func multiset(xs []string) string { sort.Strings(xs); return strings.Join(xs, " ; ") }

// genesisView renders a genesis state with defaults applied, lists as multisets.
func genesisView(g *types.GenesisState) map[string]string {
	v := map[string]string{"owner": g.Owner, "attester_manager": g.AttesterManager, "pauser": g.Pauser, "token_controller": g.TokenController}
	bm, sr := "absent", "absent"
	if g.BurningAndMintingPaused != nil {
		bm = fmt.Sprint(g.BurningAndMintingPaused.Paused)
	}
	if g.SendingAndReceivingMessagesPaused != nil {
		sr = fmt.Sprint(g.SendingAndReceivingMessagesPaused.Paused)
	}
	v["burning_and_minting_paused"], v["sending_and_receiving_paused"] = bm, sr
	mb, nn, th := uint64(8000), uint64(0), uint32(1) // documented defaults of absent optionals
	if g.MaxMessageBodySize != nil {
		mb = g.MaxMessageBodySize.Amount
	}
	if g.NextAvailableNonce != nil {
		nn = g.NextAvailableNonce.Nonce
	}
	if g.SignatureThreshold != nil {
		th = g.SignatureThreshold.Amount
	}
	v["max_message_body_size"], v["next_available_nonce"], v["signature_threshold"] = fmt.Sprint(mb), fmt.Sprint(nn), fmt.Sprint(th)
	var a, l, p, u, m []string
	for _, x := range g.AttesterList {
		a = append(a, fmt.Sprintf("%q", x.Attester))
	}
	for _, x := range g.PerMessageBurnLimitList {
		amt := "0" // an entry without an amount stands for the zero amount
		if !x.Amount.IsNil() {
			amt = x.Amount.String()
		}
		l = append(l, fmt.Sprintf("%q=%s", x.Denom, amt))
	}
	for _, x := range g.TokenPairList {
		p = append(p, fmt.Sprintf("%d/%x=%q", x.RemoteDomain, x.RemoteToken, x.LocalToken))
	}
	for _, x := range g.UsedNoncesList {
		u = append(u, fmt.Sprintf("%d/%d", x.SourceDomain, x.Nonce))
	}
	for _, x := range g.TokenMessengerList {
		m = append(m, fmt.Sprintf("%d=%x", x.DomainId, x.Address))
	}
	v["attesters"], v["burn_limits"], v["token_pairs"], v["used_nonces"], v["token_messengers"] = multiset(a), multiset(l), multiset(p), multiset(u), multiset(m)
	return v
}

// collisions lists the keyed lists of g in which two entries share a documented key.
func collisions(g *types.GenesisState) []string {
	var out []string
	dup := func(name string, keys []string) {
		seen := map[string]bool{}
		for _, k := range keys {
			if seen[k] {
				out = append(out, name)
				return
			}
			seen[k] = true
		}
	}
	var a, l, p, u, m []string
	for _, x := range g.AttesterList {
		a = append(a, x.Attester)
	}
	for _, x := range g.PerMessageBurnLimitList {
		l = append(l, x.Denom)
	}
	for _, x := range g.TokenPairList {
		p = append(p, fmt.Sprintf("%d/%x", x.RemoteDomain, x.RemoteToken))
	}
	for _, x := range g.UsedNoncesList {
		u = append(u, fmt.Sprintf("%d/%d", x.SourceDomain, x.Nonce))
	}
	for _, x := range g.TokenMessengerList {
		m = append(m, fmt.Sprint(x.DomainId))
	}
	dup("attesters", a)
	dup("burn_limits", l)
	dup("token_pairs", p)
	dup("used_nonces", u)
	dup("token_messengers", m)
	return out
}

var bareLedger = chain.LedgerGenesis{MintingDenom: "uusdc", ModuleIsMinter: true, Allowance: "0"}

// c17genesisCheck: validation vs collision model, then export(init(g)) == g.
func c17genesisCheck(raw json.RawMessage) (v *Viol, classes []string) {
	var g types.GenesisState
	if err := chain.Codec().UnmarshalJSON(raw, &g); err != nil {
		return nil, []string{"json-not-decodable"}
	}
	col := collisions(&g)
	verr := chain.ValidateGenesis(raw)
	if len(col) > 0 {
		classes = append(classes, "has-collision")
		for _, c := range col {
			classes = append(classes, "collision:"+c)
		}
		if verr == nil {
			vv := viol("C17", 0, "validation accepts a genesis in which two entries of a keyed list share a key", "rejected ("+strings.Join(col, ",")+")", "accepted")
			vv.Sig = "validate-accepts-collision:" + strings.Join(col, ",")
			return vv, classes
		}
	}
	if verr != nil {
		return nil, append(classes, "rejected-by-validation")
	}
	c, err := chain.New(chain.Genesis{Cctp: raw, Ledger: bareLedger})
	if err != nil {
		return nil, append(classes, "rejected-by-initialisation")
	}
	out, err := c.Export()
	if err != nil {
		return viol("C17", 0, "export after initialising an accepted genesis", "state", err), classes
	}
	want, got := genesisView(&g), genesisView(out)
	for _, k := range sortedStrKeys(want) {
		if want[k] != got[k] {
			return viol("C17", 0, "export(init(g)) differs from g in "+k, want[k], got[k]), classes
		}
	}
	return nil, append(classes, "accepted-and-round-tripped")
}

func sortedStrKeys(m map[string]string) []string {
	var ks []string
	for k := range m {
		ks = append(ks, k)
	}
	sort.Strings(ks)
	return ks
}

// genGenesisState draws arbitrary list contents with deliberately colliding keys.
func genGenesisState(t *rapid.T) *types.GenesisState {
	g := &types.GenesisState{}
	role := func(l string) string {
		switch rapid.IntRange(0, 5).Draw(t, l) {
		case 0:
			return ""
		default:
			return sim.Acct(rapid.IntRange(0, sim.NAccts-1).Draw(t, l+"/a"))
		}
	}
	g.Owner, g.AttesterManager, g.Pauser, g.TokenController = role("owner"), role("am"), role("pauser"), role("tc")
	collide := rapid.IntRange(0, 2).Draw(t, "collide") == 0
	n := func(l string) int { return rapid.IntRange(0, 8).Draw(t, l) }
	// attesters
	for i, k := 0, n("natt"); i < k; i++ {
		var s string
		switch rapid.IntRange(0, 5).Draw(t, "attkind") {
		case 0:
			s = rapid.SampledFrom([]string{"", "/", "a", "a/", "zz", "0x"}).Draw(t, "attodd")
		default:
			s = attest.K(rapid.IntRange(0, 5).Draw(t, "attkey")).Spelling(rapid.IntRange(0, 2).Draw(t, "attsp"))
		}
		g.AttesterList = append(g.AttesterList, types.Attester{Attester: s})
	}
	for i, k := 0, n("nlim"); i < k; i++ {
		d := rapid.SampledFrom([]string{"uusdc", "UUSDC", "uUsdc", "ueurc", "", "a/b", "uusdc/"}).Draw(t, "limdenom")
		a := sim.Int(sim.Big(rapid.SampledFrom([]string{"0", "1", "-1", "1000", "18446744073709551616", sim.Max256.String()}).Draw(t, "limamt")))
		g.PerMessageBurnLimitList = append(g.PerMessageBurnLimitList, types.PerMessageBurnLimit{Denom: d, Amount: a})
	}
	for i, k := 0, n("npair"); i < k; i++ {
		d := rapid.SampledFrom([]uint32{0, 1, 256, 1 << 24, 1<<32 - 1}).Draw(t, "pairdom")
		var tok []byte
		switch rapid.IntRange(0, 5).Draw(t, "pairtok") {
		case 0:
			tok = rapid.SliceOfN(rapid.Byte(), 0, 40).Draw(t, "pairtokraw") // any length (D3 lifted here)
		case 1:
			tok = make([]byte, 32)
		default:
			tok = sim.Pad32([]byte{byte(rapid.IntRange(1, 3).Draw(t, "pairtokn"))})
		}
		g.TokenPairList = append(g.TokenPairList, types.TokenPair{RemoteDomain: d, RemoteToken: tok, LocalToken: rapid.SampledFrom([]string{"uusdc", "UUSDC", "other", ""}).Draw(t, "pairlocal")})
	}
	for i, k := 0, n("nused"); i < k; i++ {
		g.UsedNoncesList = append(g.UsedNoncesList, types.Nonce{SourceDomain: rapid.SampledFrom([]uint32{0, 1, 47, 256, 1<<32 - 1}).Draw(t, "useddom"), Nonce: rapid.SampledFrom([]uint64{0, 1, 47, 256, 1 << 32, 1<<64 - 1}).Draw(t, "usednonce")})
	}
	for i, k := 0, n("nmsgr"); i < k; i++ {
		a := sim.Pad32([]byte{byte(rapid.IntRange(0, 3).Draw(t, "msgraddr"))})
		if rapid.IntRange(0, 5).Draw(t, "msgrlen") == 0 {
			a = a[:rapid.IntRange(0, 31).Draw(t, "msgrl")]
		}
		g.TokenMessengerList = append(g.TokenMessengerList, types.RemoteTokenMessenger{DomainId: rapid.SampledFrom([]uint32{0, 1, 2, 3, 256, 1<<32 - 1}).Draw(t, "msgrdom"), Address: a})
	}
	if rapid.IntRange(0, 14).Draw(t, "biglist") == 0 {
		// one list longer than a default query page (100): an export that goes through a paginated
		// helper would return only its first page
		k := rapid.IntRange(101, 125).Draw(t, "bign")
		switch rapid.IntRange(0, 4).Draw(t, "bigwhich") {
		case 0:
			for i := 0; i < k; i++ {
				g.AttesterList = append(g.AttesterList, types.Attester{Attester: fmt.Sprintf("04%0128x", 1000+i)})
			}
		case 1:
			for i := 0; i < k; i++ {
				g.PerMessageBurnLimitList = append(g.PerMessageBurnLimitList, types.PerMessageBurnLimit{Denom: fmt.Sprintf("udenom%03d", i), Amount: sim.Int(big.NewInt(int64(i)))})
			}
		case 2:
			for i := 0; i < k; i++ {
				g.TokenPairList = append(g.TokenPairList, types.TokenPair{RemoteDomain: 77, RemoteToken: attest.Keccak([]byte{byte(i), 'b'}), LocalToken: "uusdc"})
			}
		case 3:
			for i := 0; i < k; i++ {
				g.UsedNoncesList = append(g.UsedNoncesList, types.Nonce{SourceDomain: 9, Nonce: uint64(7000 + i)})
			}
		default:
			for i := 0; i < k; i++ {
				g.TokenMessengerList = append(g.TokenMessengerList, types.RemoteTokenMessenger{DomainId: uint32(5000 + i), Address: sim.Pad32([]byte{byte(i), 1})})
			}
		}
	}
	if !collide {
		dedupGenesis(g)
	}
	present := func(l string) bool { return rapid.IntRange(0, 3).Draw(t, l) > 0 }
	if rapid.IntRange(0, 19).Draw(t, "bmabsent") > 0 {
		g.BurningAndMintingPaused = &types.BurningAndMintingPaused{Paused: rapid.Bool().Draw(t, "bm")}
	}
	if rapid.IntRange(0, 19).Draw(t, "srabsent") > 0 {
		g.SendingAndReceivingMessagesPaused = &types.SendingAndReceivingMessagesPaused{Paused: rapid.Bool().Draw(t, "sr")}
	}
	if present("maxbody") {
		g.MaxMessageBodySize = &types.MaxMessageBodySize{Amount: rapid.SampledFrom([]uint64{0, 1, 132, 8000, 1<<64 - 1}).Draw(t, "maxbodyv")}
	}
	if present("nextnonce") {
		// (the counter is stored as a Nonce record: its source-domain field is carried along, whatever it says)
		g.NextAvailableNonce = &types.Nonce{SourceDomain: rapid.SampledFrom([]uint32{0, 0, 4, 7}).Draw(t, "nextdom"), Nonce: rapid.SampledFrom([]uint64{0, 1, 1 << 32, 1<<64 - 1}).Draw(t, "nextv")}
	}
	if present("threshold") {
		g.SignatureThreshold = &types.SignatureThreshold{Amount: rapid.SampledFrom([]uint32{0, 1, 2, 3, 1 << 31, 1<<32 - 1}).Draw(t, "thrv")}
	}
	return g
}

// dedupGenesis removes later entries that share a documented key with an earlier one.
func dedupGenesis(g *types.GenesisState) {
	seen := map[string]bool{}
	keep := func(k string) bool {
		if seen[k] {
			return false
		}
		seen[k] = true
		return true
	}
	var a []types.Attester
	for _, x := range g.AttesterList {
		if keep("a|" + x.Attester) {
			a = append(a, x)
		}
	}
	g.AttesterList = a
	var l []types.PerMessageBurnLimit
	for _, x := range g.PerMessageBurnLimitList {
		if keep("l|" + x.Denom) {
			l = append(l, x)
		}
	}
	g.PerMessageBurnLimitList = l
	var p []types.TokenPair
	for _, x := range g.TokenPairList {
		if keep(fmt.Sprintf("p|%d/%x", x.RemoteDomain, x.RemoteToken)) {
			p = append(p, x)
		}
	}
	g.TokenPairList = p
	var u []types.Nonce
	for _, x := range g.UsedNoncesList {
		if keep(fmt.Sprintf("u|%d/%d", x.SourceDomain, x.Nonce)) {
			u = append(u, x)
		}
	}
	g.UsedNoncesList = u
	var m []types.RemoteTokenMessenger
	for _, x := range g.TokenMessengerList {
		if keep(fmt.Sprintf("m|%d", x.DomainId)) {
			m = append(m, x)
		}
	}
	g.TokenMessengerList = m
}

func c17preludeGenesis() []*types.GenesisState {
	base := func() *types.GenesisState {
		g := types.DefaultGenesis()
		g.Owner, g.AttesterManager, g.Pauser, g.TokenController = sim.Acct(0), sim.Acct(1), sim.Acct(2), sim.Acct(3)
		return g
	}
	var out []*types.GenesisState
	out = append(out, base())
	g := base()
	g.AttesterList = []types.Attester{{Attester: "aa"}, {Attester: "aa"}}
	out = append(out, g)
	g = base()
	g.PerMessageBurnLimitList = []types.PerMessageBurnLimit{{Denom: "uusdc", Amount: sim.Int(sim.Big("1"))}, {Denom: "uusdc", Amount: sim.Int(sim.Big("2"))}}
	out = append(out, g)
	g = base()
	g.TokenPairList = []types.TokenPair{{RemoteDomain: 1, RemoteToken: sim.Pad32([]byte{1}), LocalToken: "uusdc"}, {RemoteDomain: 1, RemoteToken: sim.Pad32([]byte{1}), LocalToken: "other"}}
	out = append(out, g)
	g = base()
	g.UsedNoncesList = []types.Nonce{{SourceDomain: 1, Nonce: 2}, {SourceDomain: 1, Nonce: 2}}
	out = append(out, g)
	g = base()
	g.TokenMessengerList = []types.RemoteTokenMessenger{{DomainId: 3, Address: sim.Pad32([]byte{1})}, {DomainId: 3, Address: sim.Pad32([]byte{2})}}
	out = append(out, g)
	g = base()
	g.MaxMessageBodySize, g.NextAvailableNonce, g.SignatureThreshold = &types.MaxMessageBodySize{Amount: 5}, &types.Nonce{Nonce: 9}, &types.SignatureThreshold{Amount: 2}
	g.AttesterList = []types.Attester{{Attester: "aa"}, {Attester: "bb"}}
	g.UsedNoncesList = []types.Nonce{{SourceDomain: 1, Nonce: 2}, {SourceDomain: 2, Nonce: 1}}
	out = append(out, g)
	return out
}

// c17dupSweep: deterministic pseudo-random long lists with exactly one colliding key.
func c17dupSweep(st *Stats) *Viol {
	x := uint64(0x9e3779b97f4a7c15)
	next := func(n int) int { // xorshift: fixed sequence, no library RNG
		x ^= x << 13
		x ^= x >> 7
		x ^= x << 17
		return int(x % uint64(n))
	}
	base := func() *types.GenesisState {
		g := types.DefaultGenesis()
		g.Owner, g.AttesterManager, g.Pauser, g.TokenController = sim.Acct(0), sim.Acct(1), sim.Acct(2), sim.Acct(3)
		return g
	}
	n := 0
	for round := 0; round < 6000; round++ {
		size := 13 + next(48)
		kind := round % 5
		g := base()
		// 'size' distinct entries in a shuffled or grouped order
		idx := make([]int, size)
		for i := range idx {
			idx[i] = i
		}
		if round%3 != 0 {
			for i := size - 1; i > 0; i-- {
				j := next(i + 1)
				idx[i], idx[j] = idx[j], idx[i]
			}
		}
		dupOf, at := idx[next(size)], next(size+1)
		seq := append(append(append([]int{}, idx[:at]...), dupOf), idx[at:]...)
		for _, i := range seq {
			switch kind {
			case 0:
				g.AttesterList = append(g.AttesterList, types.Attester{Attester: fmt.Sprintf("04%0128x", 7000+i)})
			case 1:
				g.PerMessageBurnLimitList = append(g.PerMessageBurnLimitList, types.PerMessageBurnLimit{Denom: fmt.Sprintf("udenom%03d", i), Amount: sim.Int(big.NewInt(int64(i + 1)))})
			case 2:
				g.TokenPairList = append(g.TokenPairList, types.TokenPair{RemoteDomain: uint32(i % 8), RemoteToken: sim.Pad32([]byte{byte(i / 8), 9}), LocalToken: "uusdc"})
			case 3:
				g.UsedNoncesList = append(g.UsedNoncesList, types.Nonce{SourceDomain: uint32(i % 8), Nonce: uint64(i / 8)})
			default:
				g.TokenMessengerList = append(g.TokenMessengerList, types.RemoteTokenMessenger{DomainId: uint32(i), Address: sim.Pad32([]byte{byte(i), 3})})
			}
		}
		n++
		if err := safeValidate(g); err == nil {
			raw := json.RawMessage(chain.Codec().MustMarshalJSON(g))
			v := viol("C17", 0, fmt.Sprintf("validation accepts a genesis of %d entries in which two entries of a keyed list share a key", size+1), "rejected", "accepted")
			saveFail("C17", "c17-genesis", raw, v)
			return v
		}
	}
	// used nonces in the order an export lists them (by domain, then nonce), hundreds of entries, one of them repeated
	// somewhere: the shape a real upgrade genesis has
	for round := 0; round < 1500; round++ {
		g := base()
		per := 30 + next(96)
		for d := 0; d < 8; d++ {
			for k := 0; k < per; k++ {
				g.UsedNoncesList = append(g.UsedNoncesList, types.Nonce{SourceDomain: uint32(d), Nonce: uint64(k)})
			}
		}
		dup := g.UsedNoncesList[next(len(g.UsedNoncesList))]
		at := next(len(g.UsedNoncesList) + 1)
		g.UsedNoncesList = append(g.UsedNoncesList[:at], append([]types.Nonce{dup}, g.UsedNoncesList[at:]...)...)
		n++
		if err := safeValidate(g); err == nil {
			raw := json.RawMessage(chain.Codec().MustMarshalJSON(g))
			v := viol("C17", 0, fmt.Sprintf("validation accepts an export-ordered used-nonce list of %d entries with (%d, %d) listed twice", len(g.UsedNoncesList), dup.SourceDomain, dup.Nonce), "rejected", "accepted")
			saveFail("C17", "c17-genesis", raw, v)
			return v
		}
	}
	st.Class("duplicate-in-long-list", n)
	st.mu.Lock()
	st.Evaluations += n
	st.mu.Unlock()
	return nil
}

func RunC17Genesis(t *testing.T) {
	st := newStats("C17")
	st.ID = "C17-genesis"
	defer st.Write()
	strip := false
	run := func(g *types.GenesisState, extra string) *Viol {
		raw := json.RawMessage(chain.Codec().MustMarshalJSON(g))
		if strip {
			// burn-limit entries of amount 0 written without their amount field
			if r2 := sim.StripLimitAmounts(raw, func(_, a string) bool { return a == "0" }); string(r2) != string(raw) {
				raw, extra = r2, extra+"+limit-without-amount"
			}
		}
		v, cls := c17genesisCheck(raw)
		if v != nil {
			saveFail("C17", "c17-genesis", json.RawMessage(raw), v)
			return v
		}
		key := ""
		if has(cls, "has-collision") || has(cls, "accepted-and-round-tripped") && len(g.AttesterList)+len(g.TokenPairList)+len(g.UsedNoncesList) > 0 {
			key = string(raw)
		}
		st.Case(key, func() any { var x any; _ = json.Unmarshal(raw, &x); return x }, append(cls, extra)...)
		return nil
	}
	for _, g := range c17preludeGenesis() {
		if v := run(g, "prelude"); v != nil {
			t.Fatalf("VIOLATION %s", v)
		}
	}
	// a limit entry without an amount in front of everything else the file says
	{
		g := types.DefaultGenesis()
		g.Owner, g.AttesterManager, g.Pauser, g.TokenController = sim.Acct(0), sim.Acct(1), sim.Acct(2), sim.Acct(3)
		g.PerMessageBurnLimitList = []types.PerMessageBurnLimit{{Denom: "uusdc", Amount: sim.Int(big.NewInt(0))}, {Denom: "ueurc", Amount: sim.Int(big.NewInt(7))}}
		g.NextAvailableNonce = &types.Nonce{Nonce: 77}
		g.SignatureThreshold = &types.SignatureThreshold{Amount: 2}
		g.MaxMessageBodySize = &types.MaxMessageBodySize{Amount: 999}
		g.AttesterList = []types.Attester{{Attester: attest.K(0).Spelling(0)}, {Attester: attest.K(1).Spelling(0)}}
		g.UsedNoncesList = []types.Nonce{{SourceDomain: 1, Nonce: 5}}
		g.TokenPairList = []types.TokenPair{{RemoteDomain: 1, RemoteToken: sim.Pad32([]byte{1}), LocalToken: "uusdc"}}
		g.TokenMessengerList = []types.RemoteTokenMessenger{{DomainId: 1, Address: sim.Pad32([]byte{2})}}
		strip = true
		v := run(g, "prelude")
		strip = false
		if v != nil {
			t.Fatalf("VIOLATION %s", v)
		}
	}
	// duplicate detection must not depend on where in a longer list the two colliding entries sit: lists of
	// 13..60 entries in many orders, one key twice, straight through GenesisState.Validate
	if v := c17dupSweep(st); v != nil {
		t.Fatalf("VIOLATION %s", v)
	}
	rapid.Check(t, func(rt *rapid.T) {
		g := genGenesisState(rt)
		strip = rapid.IntRange(0, 4).Draw(rt, "limit-without-amount") == 0
		defer func() { strip = false }()
		if v := run(g, "random"); v != nil {
			rt.Fatalf("VIOLATION %s", v)
		}
	})
	if !t.Failed() {
		st.Healthy(t, "accepted-and-round-tripped", "collision:attesters", "collision:burn_limits", "collision:token_pairs", "collision:used_nonces", "collision:token_messengers", "rejected-by-initialisation")
	}
}

func has(xs []string, s string) bool {
	for _, x := range xs {
		if x == s {
			return true
		}
	}
	return false
}

func init() {
	replayers["c17-genesis"] = func(raw []byte) *Viol {
		v, _ := c17genesisCheck(json.RawMessage(raw))
		return v
	}
}

// ---- reached states: init(export(state)) reproduces every stored entry -----------------------------------

const sigPendingOwner = "export-import-loses-exactly-pending-owner"

type c17hist struct {
	checks   int
	pending  int
	excluded int
	known    bool
}

func (c *c17hist) Begin(w *sim.World) {}

func (c *c17hist) roundTrip(w *sim.World, idx int) *Viol {
	raw, err := w.Chain.ExportJSON()
	if err != nil {
		return viol("C17", idx, "export of a reached state", "ok", err)
	}
	if verr := chain.ValidateGenesis(raw); verr != nil {
		return viol("C17", idx, "exported genesis of a reached state is rejected by validation", "accepted", verr)
	}
	c2, err := chain.New(chain.Genesis{Cctp: raw, Ledger: bareLedger})
	if err != nil {
		return viol("C17", idx, "importing the exported genesis into an empty chain", "ok", err)
	}
	pre, post := w.Chain.RawKV(w.Chain.CctpKey), c2.RawKV(c2.CctpKey)
	c.checks++
	if w.Model.Pending != nil {
		c.pending++
	}
	if sameDump(pre, post) {
		return nil
	}
	delta := dumpDelta(pre, post)
	v := viol("C17", idx, "init(export(state)) does not reproduce every stored entry", "identical raw key/value dump", delta)
	// signature: the only difference is the missing pending-owner slot
	if strings.HasPrefix(delta, `-"pending-owner"=`) && !strings.Contains(delta, " ") {
		v.Sig = sigPendingOwner
		if k := isKnown("C17", sigPendingOwner); k != nil {
			c.excluded++
			c.known = true
			return nil
		}
	}
	return v
}

func (c *c17hist) Step(w *sim.World, s *sim.Step) *Viol {
	if s.Idx%5 == 4 {
		return c.roundTrip(w, s.Idx)
	}
	return nil
}

func (c *c17hist) End(w *sim.World) *Viol { return c.roundTrip(w, len(w.Steps)) }

func (c *c17hist) Summary(w *sim.World) (string, []string) {
	var cls []string
	if c.pending > 0 {
		cls = append(cls, "state-with-pending-owner")
	}
	if c.excluded > 0 {
		cls = append(cls, "excluded-known-finding")
	}
	m := w.Model
	if len(m.Used) > 0 && len(m.Pairs) > 0 && m.Next != w.Gen.NextNonce {
		cls = append(cls, "nontrivial")
		return shapeOf(w), cls
	}
	if c.pending > 0 {
		cls = append(cls, "nontrivial")
		return shapeOf(w), cls
	}
	return "", cls
}

var C17 = register(&HistProp{ID: "C17",
	Genesis: func(t *rapid.T) *sim.GenSpec {
		return sim.DrawGenesis(t, sim.GenOpts{UsedInGen: true, UpperPairGen: true, ManyUsed: true, ShortToken: true, Decoys: true, AbsentOpt: true, CaseLimits: true, ManyRegistry: true, NoAttesters: true})
	},
	Next: func(g *sim.G, i int) *sim.Op {
		return Mix{Send: 2, Dep: 2, Recv: 3, Admin: 12, DepValid: 85, RecvBroken: 15, AdminHolder: 88}.next(g)
	},
	MinOps: 3, MaxOps: 30, New: func() Checker { return &c17hist{} },
	Require: []string{"nontrivial", "state-with-pending-owner"}})

// RunC17 runs the directed known-finding case, then the random histories.
func RunC17(t *testing.T) {
	// directed case for the known finding: print KNOWN-FINDING while the defect is there
	gs := &sim.GenSpec{Roles: [4]int{0, 1, 2, 3}, Attesters: []string{attest.K(0).Spelling(0)}, Threshold: 1, MaxBody: 8000, Ledger: bareLedger}
	w, err := sim.NewWorld(gs)
	if err != nil {
		t.Fatalf("HARNESS %v", err)
	}
	op := sim.TxOp("admin:UpdateOwner", &types.MsgUpdateOwner{From: sim.Acct(0), NewOwner: sim.Acct(4)})
	w.Exec(op)
	probe := &c17hist{}
	if v := probe.roundTrip(w, 1); v != nil && v.Sig != sigPendingOwner {
		// the directed case fails in another way than the listed finding: that is a violation of its own
		cs := &sim.Case{Property: "C17", Gen: gs, Ops: []*sim.Op{op}}
		cs.Finalize()
		saveFail("C17", "history", cs, v)
		t.Fatalf("VIOLATION %s", v)
	} else if v == nil && probe.known {
		k := isKnown("C17", sigPendingOwner)
		fmt.Printf("KNOWN-FINDING: property=C17 %s\n", k.Text)
	}
	// (if v != nil with the known signature but not listed, the random run below reports it)
	C17.Run(t)
}

// Native fuzz target: mutated genesis JSON through the same oracle.
func fuzzGenesisJSON(f *testing.F) {
	for _, g := range c17preludeGenesis() {
		f.Add([]byte(chain.Codec().MustMarshalJSON(g)))
	}
	f.Fuzz(func(t *testing.T, raw []byte) {
		if !json.Valid(raw) {
			return
		}
		if v, _ := c17genesisCheck(json.RawMessage(raw)); v != nil {
			t.Fatalf("VIOLATION %s", v)
		}
	})
}

// safeValidate: GenesisState.Validate with a panic turned into an error (a validation that dies refuses the
// document as well; whether it may die is C18's and C20's question, not C17's).
func safeValidate(g *types.GenesisState) (err error) {
	defer func() {
		if r := recover(); r != nil {
			err = fmt.Errorf("validate panic: %v", r)
		}
	}()
	return g.Validate()
}
