// Package props holds one check per property. Every check is a generated-input
// search against an explicit oracle; a failure is written as a JSON replay file.
package props

import (
	"crypto/sha256"
	"encoding/hex"
	"encoding/json"
	"fmt"
	"os"
	"path/filepath"
	"sort"
	"strings"
	"sync"
	"testing"

	"pgregory.net/rapid"

	"verif/harness/sim"
)

// Viol is a property violation found by an oracle.
type Viol struct {
	Property string `json:"property"`
	Step     int    `json:"step"`
	What     string `json:"what"`
	Expected string `json:"expected,omitempty"`
	Got      string `json:"got,omitempty"`
	// Sig identifies the violation for known-findings matching.
	Sig string `json:"sig,omitempty"`
}

func (v *Viol) String() string {
	return fmt.Sprintf("property=%s step=%d %s expected=%q got=%q", v.Property, v.Step, v.What, v.Expected, v.Got)
}

func viol(id string, step int, what string, exp, got any) *Viol {
	return &Viol{Property: id, Step: step, What: what, Expected: fmt.Sprint(exp), Got: fmt.Sprint(got)}
}

// Replay is the on-disk form of a failing (or sample) case.
type Replay struct {
	Property string          `json:"property"`
	Kind     string          `json:"kind"` // history | <property-specific>
	Engine   string          `json:"engine"`
	Seed     string          `json:"seed,omitempty"`
	Case     json.RawMessage `json:"case"`
	Observed *Viol           `json:"observed,omitempty"`
}

func outDir() string {
	d := os.Getenv("VERIF_OUT")
	if d == "" {
		d = os.TempDir()
	}
	return d
}

// saveFail writes the failing case; the last write of a shrinking run is the minimal case.
func saveFail(id, kind string, c any, v *Viol) {
	bz, err := json.Marshal(c)
	if err != nil {
		panic(err)
	}
	r := Replay{Property: id, Kind: kind, Engine: "rapid", Seed: os.Getenv("VERIF_SEED"), Case: bz, Observed: v}
	out, _ := json.MarshalIndent(r, "", " ")
	_ = os.WriteFile(filepath.Join(outDir(), id+".fail.json"), out, 0o644)
}

// ---- statistics -> evidence ---------------------------------------------------------------------

type Stats struct {
	mu          sync.Mutex
	ID          string         `json:"id"`
	Evaluations int            `json:"evaluations"`
	Required    []string       `json:"required,omitempty"`
	NonTrivial  []string       `json:"nontrivial"` // hashes of distinct non-trivial cases
	Classes     map[string]int `json:"classes"`
	Samples     []any          `json:"samples"`
	Excluded    int            `json:"excluded_known"`
	Divergences int            `json:"model_divergences"`
	DivSamples  []string       `json:"divergence_samples,omitempty"`
	Known       []string       `json:"known_findings,omitempty"`
	Exhaustive  bool           `json:"exhaustive,omitempty"`
	Extra       map[string]any `json:"extra,omitempty"`
	nt          map[string]bool
	ntSampled   bool
}

func newStats(id string) *Stats {
	return &Stats{ID: id, Classes: map[string]int{}, nt: map[string]bool{}, Extra: map[string]any{}}
}

func hashKey(s string) string {
	h := sha256.Sum256([]byte(s))
	return hex.EncodeToString(h[:8])
}

// Case records one executed case; ntKey != "" marks it non-trivial with that identity.
func (s *Stats) Case(ntKey string, sample func() any, classes ...string) {
	s.mu.Lock()
	defer s.mu.Unlock()
	s.Evaluations++
	for _, c := range classes {
		s.Classes[c]++
	}
	if ntKey != "" {
		// several identities may be reported at once, separated by 0x1f
		for _, k := range strings.Split(ntKey, "\x1f") {
			h := hashKey(k)
			if !s.nt[h] {
				s.nt[h] = true
				if !s.ntSampled && sample != nil {
					s.ntSampled = true
					s.Samples = append(s.Samples, sample())
				}
			}
		}
	}
	if len(s.Samples) < 3 && sample != nil && (ntKey == "" || s.ntSampled) && s.Evaluations%7 == 1 {
		s.Samples = append(s.Samples, sample())
	}
}

func (s *Stats) Class(c string, n int) {
	s.mu.Lock()
	s.Classes[c] += n
	s.mu.Unlock()
}

func (s *Stats) Diverged(w *sim.World) {
	s.mu.Lock()
	s.Excluded += w.RestartLostPending // genesis round trips that lost a pending owner (known finding F3)
	if w.Restarts > 0 {
		s.Classes["has-genesis-round-trip"]++
	}
	s.Divergences += len(w.Div)
	for _, d := range w.Div {
		if len(s.DivSamples) < 5 {
			s.DivSamples = append(s.DivSamples, d)
		}
	}
	s.mu.Unlock()
}

func (s *Stats) Write() {
	s.mu.Lock()
	defer s.mu.Unlock()
	s.NonTrivial = s.NonTrivial[:0]
	for h := range s.nt {
		s.NonTrivial = append(s.NonTrivial, h)
	}
	sort.Strings(s.NonTrivial)
	bz, err := json.Marshal(s)
	if err != nil {
		panic(err)
	}
	shard := os.Getenv("VERIF_SHARD")
	if shard == "" {
		shard = "0"
	}
	_ = os.WriteFile(filepath.Join(outDir(), fmt.Sprintf("%s.stats.%s.json", s.ID, shard)), bz, 0o644)
}

// Healthy fails the run (exit 2 in the driver: no VIOLATION) when a class the
// non-triviality rule depends on was never produced.
func (s *Stats) Healthy(t *testing.T, required ...string) {
	s.mu.Lock()
	s.Required = append(s.Required, required...)
	s.mu.Unlock()
	if os.Getenv("VERIF_MERGED_HEALTH") == "1" {
		// several shards of one engine: the driver judges the classes after merging the shards
		return
	}
	for _, c := range required {
		if s.Classes[c] == 0 {
			t.Errorf("UNHEALTHY generator: class %q never produced", c)
		}
	}
}

// ---- history-based properties ---------------------------------------------------------------------

// Checker is the oracle of a history-based property.
type Checker interface {
	Begin(w *sim.World)
	Step(w *sim.World, s *sim.Step) *Viol
	End(w *sim.World) *Viol
	// Summary classifies the finished case: ntKey != "" iff non-trivial.
	Summary(w *sim.World) (ntKey string, classes []string)
}

type HistProp struct {
	ID      string
	Genesis func(t *rapid.T) *sim.GenSpec
	Next    func(g *sim.G, i int) *sim.Op
	MaxOps  int
	MinOps  int
	New     func() Checker
	Prelude func() []*sim.Case
	Require []string // classes that must occur (generator health)
	// Drive, when set, replaces the default "n times Next" loop; it calls exec for
	// every op it wants executed and stops at the first violation.
	Drive func(g *sim.G, exec func(*sim.Op) *Viol) *Viol
}

var histProps = map[string]*HistProp{}

func register(p *HistProp) *HistProp { histProps[p.ID] = p; return p }

// RunCase replays a recorded case through the property's oracle.
func (p *HistProp) RunCase(c *sim.Case) (w *sim.World, chk Checker, v *Viol, err error) {
	w, err = sim.NewWorld(c.Gen)
	if err != nil {
		return nil, nil, nil, err
	}
	chk = p.New()
	chk.Begin(w)
	for _, op := range c.Ops {
		if err := op.Resolve(); err != nil {
			return nil, nil, nil, err
		}
		st := w.Exec(op)
		if v := chk.Step(w, st); v != nil {
			return w, chk, v, nil
		}
	}
	return w, chk, chk.End(w), nil
}

func caseSample(c *sim.Case) func() any {
	return func() any {
		c.Finalize()
		bz, _ := json.Marshal(c)
		var out any
		_ = json.Unmarshal(bz, &out)
		return out
	}
}

// regressCases loads saved replay files of this property (earlier shrunk failures and
// false alarms); they run first in every tier.
func (p *HistProp) regressCases() []*sim.Case {
	dir := filepath.Join(os.Getenv("VERIF_VERIF"), "harness", "props", "testdata", "regress")
	files, _ := filepath.Glob(filepath.Join(dir, p.ID+"-*.json"))
	sort.Strings(files)
	var out []*sim.Case
	for _, f := range files {
		bz, err := os.ReadFile(f)
		if err != nil {
			continue
		}
		var r Replay
		if json.Unmarshal(bz, &r) != nil || r.Kind != "history" {
			continue
		}
		var c sim.Case
		if json.Unmarshal(r.Case, &c) == nil {
			out = append(out, &c)
		}
	}
	return out
}

func (p *HistProp) Run(t *testing.T) {
	st := newStats(p.ID)
	defer st.Write()
	for i, c := range p.regressCases() {
		w, chk, v, err := p.RunCase(c)
		if err != nil {
			t.Fatalf("HARNESS regress %d: %v", i, err)
		}
		if v != nil {
			c.Finalize()
			saveFail(p.ID, "history", c, v)
			t.Fatalf("regression case %d: %s", i, v)
		}
		nt, cls := chk.Summary(w)
		st.Case(nt, nil, append(cls, "regress")...)
	}
	if p.Prelude != nil {
		for i, c := range p.Prelude() {
			c.Property = p.ID
			w, chk, v, err := p.RunCase(c)
			if err != nil {
				t.Fatalf("HARNESS prelude %d: %v", i, err)
			}
			if v != nil {
				c.Finalize()
				saveFail(p.ID, "history", c, v)
				t.Fatalf("prelude case %d: %s", i, v)
			}
			nt, cls := chk.Summary(w)
			st.Case(nt, caseSample(c), append(cls, "prelude")...)
			st.Diverged(w)
		}
	}
	rapid.Check(t, func(rt *rapid.T) {
		gs := p.Genesis(rt)
		w, err := sim.NewWorld(gs)
		if err != nil {
			rt.Fatalf("HARNESS genesis rejected: %v", err)
		}
		chk := p.New()
		chk.Begin(w)
		min := p.MinOps
		if min == 0 {
			min = 1
		}
		n := rapid.IntRange(min, p.MaxOps).Draw(rt, "nops")
		cs := &sim.Case{Property: p.ID, Gen: gs}
		g := &sim.G{T: rt, W: w}
		exec := func(op *sim.Op) *Viol {
			cs.Ops = append(cs.Ops, op)
			s := w.Exec(op)
			return chk.Step(w, s)
		}
		if p.Drive != nil {
			if v := p.Drive(g, exec); v != nil {
				cs.Finalize()
				saveFail(p.ID, "history", cs, v)
				rt.Fatalf("VIOLATION %s", v)
			}
			n = 0
		}
		for i := 0; i < n; i++ {
			if v := exec(p.Next(g, i)); v != nil {
				cs.Finalize()
				saveFail(p.ID, "history", cs, v)
				rt.Fatalf("VIOLATION %s", v)
			}
		}
		if v := chk.End(w); v != nil {
			cs.Finalize()
			saveFail(p.ID, "history", cs, v)
			rt.Fatalf("VIOLATION %s", v)
		}
		nt, cls := chk.Summary(w)
		st.Case(nt, caseSample(cs), cls...)
		st.Diverged(w)
	})
	if !t.Failed() {
		st.Healthy(t, p.Require...)
	}
}

// opLabels returns the labels of the ops of a world's steps joined (case shape).
func shapeOf(w *sim.World) string {
	s := ""
	for _, st := range w.Steps {
		ok := "-"
		if st.Op.Kind == "tx" && st.OK() {
			ok = "+"
		}
		s += st.Op.Label + ok + ","
	}
	return s
}

func mustJSON(raw []byte, v any) {
	if err := json.Unmarshal(raw, v); err != nil {
		panic(err)
	}
}

func jsonMarshal(v any) ([]byte, error) { return json.Marshal(v) }
