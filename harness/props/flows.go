package props

import (
	"fmt"
	"math/big"
	"strings"

	"github.com/circlefin/noble-cctp/x/cctp/types"
	sdk "github.com/cosmos/cosmos-sdk/types"
	"pgregory.net/rapid"

	"verif/harness/attest"
	"verif/harness/chain"
	"verif/harness/refcodec"
	"verif/harness/sim"
)

func effective(calls []chain.Call, kind string) []chain.Call {
	var out []chain.Call
	for _, c := range calls {
		if c.Kind == kind && c.Err == "" {
			out = append(out, c)
		}
	}
	return out
}

func ofKind(calls []chain.Call, kind string) []chain.Call {
	var out []chain.Call
	for _, c := range calls {
		if c.Kind == kind {
			out = append(out, c)
		}
	}
	return out
}

// ---- C04: every accepted burn message mints exactly what it says, once -----------------------------

type c04 struct {
	seen     map[string]bool // accepted (source domain, nonce) pairs
	total    *big.Int // sum of amounts of accepted burn messages
	accepted int
	big      int
	highRcp  int
	diffRcp  int
	upper    int
	other    int
	keys     []string
}

func (c *c04) Begin(w *sim.World) { c.total = new(big.Int); c.seen = map[string]bool{} }

func (c *c04) Step(w *sim.World, s *sim.Step) *Viol {
	if v := recvResponses("C04", s); v != nil {
		return v
	}
	denom := w.Model.L.NDenom()
	if s.Op.Kind == "tx" {
		mints := ofKind(s.Calls, "mint")
		if !s.OK() {
			// rolled back: totals must not move (checked below); nothing else to compare
		} else {
			mi := 0
			mw := typedEvents[*types.MintAndWithdraw](s)
			mr := typedEvents[*types.MessageReceived](s)
			ei, ri := 0, 0
			for _, m := range s.Msgs {
				rm, ok := m.(*types.MsgReceiveMessage)
				if !ok {
					continue
				}
				dm, err := refcodec.DecodeMessage(rm.Message)
				if err != nil {
					return viol("C04", s.Idx, "successful receive of an undecodable message", "failure", "success")
				}
				// MessageReceived event
				if ri >= len(mr) {
					return viol("C04", s.Idx, "MessageReceived event", "present", "missing")
				}
				ev := mr[ri]
				ri++
				if ev.Caller != rm.From || ev.SourceDomain != dm.Source || ev.Nonce != dm.Nonce || !eq(ev.Sender, dm.Sender) || !eq(ev.MessageBody, dm.Body) {
					return viol("C04", s.Idx, "MessageReceived event fields vs the received message",
						fmt.Sprintf("caller=%s domain=%d nonce=%d sender=%x body=%x", rm.From, dm.Source, dm.Nonce, dm.Sender, dm.Body),
						fmt.Sprintf("caller=%s domain=%d nonce=%d sender=%x body=%x", ev.Caller, ev.SourceDomain, ev.Nonce, ev.Sender, ev.MessageBody))
				}
				if !eq(dm.Recip, sim.Pad32(sim.ModuleAddrBytes())) {
					c.other++
					continue
				}
				bm, err := refcodec.DecodeBurn(dm.Body)
				if err != nil {
					return viol("C04", s.Idx, "successful module-addressed receive without a 132-byte burn body", "failure", "success")
				}
				pe, ok := s.Pre.Pairs[fmt.Sprintf("%d/%x", dm.Source, bm.BurnToken)]
				if !ok {
					return viol("C04", s.Idx, "successful mint without a linked token pair", "failure", "success")
				}
				if mi >= len(mints) {
					return viol("C04", s.Idx, "mint request for an accepted burn message", "exactly one", "none")
				}
				call := mints[mi]
				mi++
				wantTo := sdk.AccAddress(bm.MintRecip[12:]).String()
				wantDenom := strings.ToLower(pe.Local)
				if call.Err != "" {
					return viol("C04", s.Idx, "receive succeeded although the mint failed", "failure", "success with mint error "+call.Err)
				}
				if call.From != sim.ModuleAddr() || call.To != wantTo || call.Denom != wantDenom || call.Amount != bm.Amount.String() {
					return viol("C04", s.Idx, "mint request vs burn message",
						fmt.Sprintf("from=%s to=%s %s%s", sim.ModuleAddr(), wantTo, bm.Amount, wantDenom),
						fmt.Sprintf("from=%s to=%s %s%s", call.From, call.To, call.Amount, call.Denom))
				}
				if ei >= len(mw) {
					return viol("C04", s.Idx, "MintAndWithdraw event", "present", "missing")
				}
				me := mw[ei]
				ei++
				if !eq(me.MintRecipient, bm.MintRecip) || me.Amount.IsNil() || me.Amount.BigInt().Cmp(bm.Amount) != 0 || me.MintToken != wantDenom {
					return viol("C04", s.Idx, "MintAndWithdraw event vs burn message",
						fmt.Sprintf("recipient=%x amount=%s token=%s", bm.MintRecip, bm.Amount, wantDenom),
						fmt.Sprintf("recipient=%x amount=%s token=%s", me.MintRecipient, me.Amount, me.MintToken))
				}
				pk := fmt.Sprintf("%d/%d", dm.Source, dm.Nonce)
				if c.seen[pk] {
					return viol("C04", s.Idx, fmt.Sprintf("burn message (domain %d, nonce %d) accepted and minted a second time", dm.Source, dm.Nonce), "exactly one mint per accepted burn message", "second mint")
				}
				c.seen[pk] = true
				c.total.Add(c.total, bm.Amount)
				c.accepted++
				nt := false
				if bm.Amount.Cmp(sim.Two64) >= 0 {
					c.big++
					nt = true
				}
				if !sim.IsZero(bm.MintRecip[:12]) {
					c.highRcp++
					nt = true
				}
				if !eq(bm.MintRecip, dm.Sender) {
					c.diffRcp++
					nt = true
				}
				if pe.Local != wantDenom {
					c.upper++
				}
				if nt {
					c.keys = append(c.keys, fmt.Sprintf("%s|%x|%x", bm.Amount, bm.MintRecip, dm.Sender))
				}
			}
			if mi != len(mints) {
				return viol("C04", s.Idx, "mint requests in a successful transaction beyond its accepted burn messages: "+s.Op.Label, mi, len(mints))
			}
			if ei != len(mw) {
				return viol("C04", s.Idx, "MintAndWithdraw events beyond accepted burn messages", ei, len(mw))
			}
		}
	}
	// history invariant: total minted = sum over accepted burn messages
	led := w.Chain.RawKV(w.Chain.LedgKey)
	if got := ledgerInt(led, "minted/"+denom); got.Cmp(c.total) != 0 {
		return viol("C04", s.Idx, "total minted vs sum of accepted burn-message amounts", c.total, got)
	}
	if d := ledgerDiff(w); len(d) > 0 {
		return viol("C04", s.Idx, "ledger balances/supply vs reference model after "+s.Op.Label, "agreement", strings.Join(d, "; "))
	}
	return nil
}

func (c *c04) End(w *sim.World) *Viol { return nil }

func (c *c04) Summary(w *sim.World) (string, []string) {
	var cls []string
	add := func(n int, name string) {
		if n > 0 {
			cls = append(cls, name)
		}
	}
	add(c.accepted, "accepted-burn-message")
	add(c.big, "amount>=2^64")
	add(c.highRcp, "recipient-high-bytes-nonzero")
	add(c.diffRcp, "recipient!=sender")
	add(c.upper, "pair-local-token-not-lowercase")
	add(c.other, "accepted-non-module-message")
	if len(c.keys) > 0 {
		cls = append(cls, "nontrivial")
	}
	return strings.Join(c.keys, "\x1f"), cls
}

// restartReplayProbe: an accepted burn message; its domain's messenger (and sometimes its token pair) is
// removed; the chain goes through a genesis round trip; the registry entries come back; the same bytes
// are submitted again.
func restartReplayProbe(g *sim.G, label string) []*sim.Op {
	var cands []*sim.Step
	for _, s := range g.W.Steps {
		if s.Op.Kind == "tx" && s.OK() && len(s.Msgs) == 1 && len(effective(s.Calls, "mint")) == 1 {
			cands = append(cands, s)
		}
	}
	if len(cands) == 0 {
		return nil
	}
	s := sim.Pick(g, label+"/of", cands)
	rm := s.Msgs[0].(*types.MsgReceiveMessage)
	dm, err := refcodec.DecodeMessage(rm.Message)
	if err != nil {
		return nil
	}
	m := g.W.Model
	addr, ok := m.Msgrs[dm.Source]
	if !ok {
		return nil
	}
	ops := []*sim.Op{sim.TxOp("admin:RemoveRemoteTokenMessenger", &types.MsgRemoveRemoteTokenMessenger{From: m.Roles[0], DomainId: dm.Source})}
	ops = append(ops, &sim.Op{Kind: "restart", Label: "restart"})
	ops = append(ops, sim.TxOp("admin:AddRemoteTokenMessenger", &types.MsgAddRemoteTokenMessenger{From: m.Roles[0], DomainId: dm.Source, Address: append([]byte{}, addr...)}))
	ops = append(ops, sim.TxOp("replay", &types.MsgReceiveMessage{From: rm.From, Message: append([]byte{}, rm.Message...), Attestation: append([]byte{}, rm.Attestation...)}).WithMeta("vary", "after-restart"))
	return ops
}

var allAdmin = sim.AdminTypes

var C04 = register(&HistProp{ID: "C04",
	Genesis: func(t *rapid.T) *sim.GenSpec {
		return sim.DrawGenesis(t, sim.GenOpts{UpperPairGen: true, MixedDenom: true, ManyUsed: true, OtherLocal: true})
	},
	Next: func(g *sim.G, i int) *sim.Op {
		if op := queuedOp(g); op != nil {
			return op
		}
		if g.Pct("restartreplay", 5) {
			if ops := restartReplayProbe(g, "rr"); ops != nil {
				queueOps(g, ops[1:]...)
				return ops[0]
			}
		}
		return Mix{Recv: 12, Replay: 2, Send: 2, Dep: 3, Replace: 1, RepDep: 1, Admin: 4, Ledger: 2, Multi: 1, Restart: 5, Rollback: 3, AttProbe: 3,
			RecvBroken: 25, DepValid: 80, ReplaceValid: 80, AdminHolder: 85, FaultPct: 4, AdminTypes: allAdmin}.next(g)
	},
	MinOps: 3, MaxOps: 30, New: func() Checker { return &c04{} },
	Require: []string{"nontrivial", "amount>=2^64", "recipient-high-bytes-nonzero", "pair-local-token-not-lowercase", "accepted-non-module-message"}})

// ---- C05: every outbound burn message is backed by an equal burn ------------------------------------

type c05 struct {
	backed     map[uint64]*big.Int // module-sender nonce -> amount
	sum        *big.Int
	modGenesis *big.Int
	depositors map[string]bool
	deposits   int
	repls      int
	failedDeps int
}

func (c *c05) Begin(w *sim.World) {
	c.backed, c.sum, c.depositors = map[uint64]*big.Int{}, new(big.Int), map[string]bool{}
	c.modGenesis = new(big.Int).Set(orZeroInt(balancesOf(w.Chain.RawKV(w.Chain.LedgKey))[fmt.Sprintf("%x/%s", sim.ModuleAddrBytes(), w.Model.L.NDenom())]))
}

func orZeroInt(v *big.Int) *big.Int {
	if v == nil {
		return new(big.Int)
	}
	return v
}

func (c *c05) Step(w *sim.World, s *sim.Step) *Viol {
	denom := w.Model.L.NDenom()
	modPad := sim.Pad32(sim.ModuleAddrBytes())
	if s.Op.Kind == "tx" && s.OK() {
		si, ci := 0, 0
		calls := s.Calls
		debits := map[string]*big.Int{} // expected balance decreases
		for _, m := range s.Msgs {
			k := sim.KindOf(m)
			from := sim.FromOf(m)
			switch {
			case k == "dep" || k == "depc":
				var amt *big.Int
				switch x := m.(type) {
				case *types.MsgDepositForBurn:
					amt = x.Amount.BigInt()
				case *types.MsgDepositForBurnWithCaller:
					amt = x.Amount.BigInt()
				}
				// mints belong to receives earlier in the same transaction (C04's business)
				for ci < len(calls) && calls[ci].Kind == "mint" {
					ci++
				}
				if ci+1 >= len(calls) || calls[ci].Kind != "transfer" || calls[ci+1].Kind != "burn" {
					return viol("C05", s.Idx, "dependency requests of a successful deposit", "[transfer, burn]", fmt.Sprint(calls))
				}
				tr, bu := calls[ci], calls[ci+1]
				ci += 2
				if tr.Err != "" || bu.Err != "" {
					return viol("C05", s.Idx, "deposit succeeded although a dependency request failed", "failure", tr.Err+bu.Err)
				}
				if tr.From != from || tr.To != sim.ModuleAddr() || tr.NCoins != 1 || tr.Amount != amt.String() || w.Model.L.Norm(tr.Denom) != denom {
					return viol("C05", s.Idx, "bank transfer of a deposit", fmt.Sprintf("%s -> %s %s%s", from, sim.ModuleAddr(), amt, denom),
						fmt.Sprintf("%s -> %s %s%s (%d coins)", tr.From, tr.To, tr.Amount, tr.Denom, tr.NCoins))
				}
				if bu.From != sim.ModuleAddr() || bu.Amount != amt.String() || w.Model.L.Norm(bu.Denom) != denom {
					return viol("C05", s.Idx, "burn request of a deposit", fmt.Sprintf("%s burns %s%s", sim.ModuleAddr(), amt, denom), fmt.Sprintf("%s burns %s%s", bu.From, bu.Amount, bu.Denom))
				}
				if si >= len(s.Sent) || s.Sent[si].Msg == nil || s.Sent[si].Burn == nil {
					return viol("C05", s.Idx, "MessageSent with a burn body for a successful deposit", "present", "missing/malformed")
				}
				sm := s.Sent[si]
				si++
				if !eq(sm.Msg.Sender, modPad) {
					return viol("C05", s.Idx, "sender of a deposit's message", hexs(modPad), hexs(sm.Msg.Sender))
				}
				if sm.Burn.Amount.Cmp(amt) != 0 {
					return viol("C05", s.Idx, "amount stated in the burn message vs amount deposited and burnt", amt, sm.Burn.Amount)
				}
				if _, dup := c.backed[sm.Msg.Nonce]; dup {
					return viol("C05", s.Idx, "two deposits under one outbound nonce", "distinct nonces", sm.Msg.Nonce)
				}
				c.backed[sm.Msg.Nonce] = amt
				c.sum.Add(c.sum, amt)
				c.deposits++
				c.depositors[from] = true
				key := fmt.Sprintf("%x/%s", []byte(sdk.MustAccAddressFromBech32(from)), w.Model.L.NDenom())
				if debits[key] == nil {
					debits[key] = new(big.Int)
				}
				debits[key].Add(debits[key], amt)
			case k == "repdep":
				if si >= len(s.Sent) || s.Sent[si].Msg == nil || s.Sent[si].Burn == nil {
					return viol("C05", s.Idx, "MessageSent with a burn body for a successful deposit replacement", "present", "missing/malformed")
				}
				sm := s.Sent[si]
				si++
				was, ok := c.backed[sm.Msg.Nonce]
				if !ok {
					return viol("C05", s.Idx, "deposit replacement emitted a module-sender message for a nonce no deposit backs", "nonce of an earlier deposit", sm.Msg.Nonce)
				}
				if was.Cmp(sm.Burn.Amount) != 0 {
					return viol("C05", s.Idx, "amount of a replaced burn message vs amount burnt under that nonce", was, sm.Burn.Amount)
				}
				if !eq(sm.Msg.Sender, modPad) {
					return viol("C05", s.Idx, "sender of a deposit replacement's message", hexs(modPad), hexs(sm.Msg.Sender))
				}
				c.repls++
			case k == "send" || k == "sendc" || k == "replace":
				if si >= len(s.Sent) || s.Sent[si].Msg == nil {
					return viol("C05", s.Idx, "MessageSent of a successful send/replace", "present", "missing")
				}
				sm := s.Sent[si]
				si++
				want := sim.Pad32(sdk.MustAccAddressFromBech32(from))
				if !eq(sm.Msg.Sender, want) {
					return viol("C05", s.Idx, "sender of a user message must be the authenticated submitter", hexs(want), hexs(sm.Msg.Sender))
				}
				if k == "replace" {
					c.repls++
				}
			}
		}
		if si != len(s.Sent) {
			return viol("C05", s.Idx, "MessageSent events beyond the producing messages of the transaction", si, len(s.Sent))
		}
		for ; ci < len(calls); ci++ {
			if calls[ci].Kind != "mint" {
				return viol("C05", s.Idx, "transfer/burn request outside a deposit: "+s.Op.Label, "none", fmt.Sprint(calls[ci]))
			}
		}
		// only the depositors are debited, by exactly the amount; credits come from effective mints only
		if s.Single {
			pre, post := balancesOf(s.PreLed), balancesOf(s.PostLed)
			want := map[string]*big.Int{}
			for k, a := range debits {
				want[k] = new(big.Int).Neg(a)
			}
			for _, cl := range effective(s.Calls, "mint") {
				if to, err := sdk.AccAddressFromBech32(cl.To); err == nil {
					k := fmt.Sprintf("%x/%s", []byte(to), w.Model.L.NDenom())
					a, _ := new(big.Int).SetString(cl.Amount, 10)
					if want[k] == nil {
						want[k] = new(big.Int)
					}
					want[k].Add(want[k], a)
				}
			}
			keys := map[string]bool{}
			for k := range pre {
				keys[k] = true
			}
			for k := range post {
				keys[k] = true
			}
			for k := range want {
				keys[k] = true
			}
			for _, k := range sortedKeys(keys) {
				delta := new(big.Int).Sub(orZeroInt(post[k]), orZeroInt(pre[k]))
				if delta.Cmp(orZeroInt(want[k])) != 0 {
					return viol("C05", s.Idx, "balance change of "+k+" (debits of its deposits, credits of mints to it)", orZeroInt(want[k]), delta)
				}
			}
		}
	} else if s.Op.Kind == "tx" {
		for _, m := range s.Msgs {
			if k := sim.KindOf(m); k == "dep" || k == "depc" {
				c.failedDeps++
			}
		}
	}
	// (a burn message may name the module account itself as mint recipient: that, and nothing else, adds to it)
	if s.Op.Kind == "tx" && s.OK() {
		for _, cl := range effective(s.Calls, "mint") {
			if cl.To == sim.ModuleAddr() && w.Model.L.Norm(cl.Denom) == denom {
				if a, ok := new(big.Int).SetString(cl.Amount, 10); ok {
					c.modGenesis = new(big.Int).Add(c.modGenesis, a)
				}
			}
		}
	}
	// history invariants
	led := w.Chain.RawKV(w.Chain.LedgKey)
	if got := ledgerInt(led, "burned/"+denom); got.Cmp(c.sum) != 0 {
		return viol("C05", s.Idx, "supply destroyed through the module vs sum of burn-message amounts over distinct outbound nonces", c.sum, got)
	}
	modBal := orZeroInt(balancesOf(led)[fmt.Sprintf("%x/%s", sim.ModuleAddrBytes(), denom)])
	if modBal.Cmp(c.modGenesis) != 0 {
		return viol("C05", s.Idx, "module account balance after the transaction", c.modGenesis, modBal)
	}
	if d := ledgerDiff(w); len(d) > 0 {
		return viol("C05", s.Idx, "ledger vs reference model after "+s.Op.Label, "agreement", strings.Join(d, "; "))
	}
	return nil
}

func (c *c05) End(w *sim.World) *Viol { return nil }

func (c *c05) Summary(w *sim.World) (string, []string) {
	var cls []string
	if c.deposits > 0 {
		cls = append(cls, "has-deposit")
	}
	if c.repls > 0 {
		cls = append(cls, "has-replacement")
	}
	if c.failedDeps > 0 {
		cls = append(cls, "has-failed-deposit")
	}
	if c.modGenesis.Sign() > 0 {
		cls = append(cls, "module-prefunded")
	}
	if c.deposits >= 2 && len(c.depositors) >= 2 && (c.repls > 0 || c.failedDeps > 0) {
		cls = append(cls, "nontrivial")
		return shapeOf(w), cls
	}
	return "", cls
}

var C05 = register(&HistProp{ID: "C05",
	Genesis: func(t *rapid.T) *sim.GenSpec {
		return sim.DrawGenesis(t, sim.GenOpts{BigBalances: true, PrefundMod: rapid.IntRange(0, 3).Draw(t, "prefund") == 0, NoPause: true, MixedDenom: true})
	},
	Next: func(g *sim.G, i int) *sim.Op {
		g.NoForge = true
		return Mix{Dep: 12, Send: 3, Replace: 2, RepDep: 4, Recv: 2, Admin: 3, Ledger: 2, Multi: 1, Restart: 2, Rollback: 3,
			RecvBroken: 20, DepValid: 75, ReplaceValid: 85, AdminHolder: 85, FaultPct: 5, AdminTypes: allAdmin}.next(g)
	},
	MinOps: 4, MaxOps: 30, New: func() Checker { return &c05{} },
	Require: []string{"nontrivial", "module-prefunded", "has-replacement", "has-failed-deposit"}})

// ---- C06: outbound messages carry exactly the requested content -------------------------------------

type c06 struct {
	origTok map[uint64]string // outbound nonce -> burn_token of the original deposit's event
	keys    []string
	skipped int
	deps    int
	repdeps int
}

func (c *c06) Begin(w *sim.World) { c.origTok = map[uint64]string{} }

func cmpMsg(id string, idx int, what string, got *refcodec.Message, version, source, dest uint32, nonce uint64, sender, recip, caller, body []byte) *Viol {
	exp := fmt.Sprintf("version=%d source=%d dest=%d nonce=%d sender=%x recipient=%x caller=%x body=%x", version, source, dest, nonce, sender, recip, caller, body)
	g := fmt.Sprintf("version=%d source=%d dest=%d nonce=%d sender=%x recipient=%x caller=%x body=%x", got.Version, got.Source, got.Dest, got.Nonce, got.Sender, got.Recip, got.Caller, got.Body)
	if exp != g {
		return viol(id, idx, what, exp, g)
	}
	return nil
}

func zero32OrSame(b []byte) []byte {
	if len(b) == 0 {
		return make([]byte, 32)
	}
	return b
}

func (c *c06) Step(w *sim.World, s *sim.Step) *Viol {
	if s.Op.Kind != "tx" || !s.OK() {
		return nil
	}
	si, di := 0, 0
	devs := typedEvents[*types.DepositForBurn](s)
	next := func() (*sim.SentMsg, *Viol) {
		if si >= len(s.Sent) {
			return nil, viol("C06", s.Idx, "MessageSent event of a successful "+s.Op.Label, "present", "missing")
		}
		sm := &s.Sent[si]
		si++
		if sm.Msg == nil {
			return nil, viol("C06", s.Idx, "MessageSent holds a well-formed message", ">=116 bytes", fmt.Sprintf("%d bytes", len(sm.Bytes)))
		}
		if re, _ := refcodec.EncodeMessage(sm.Msg); !eq(re, sm.Bytes) {
			return nil, viol("C06", s.Idx, "MessageSent bytes re-encode", hexs(sm.Bytes), hexs(re))
		}
		return sm, nil
	}
	modPad := sim.Pad32(sim.ModuleAddrBytes())
	for i, m := range s.Msgs {
		from := sim.FromOf(m)
		fromPad := sim.Pad32(sdk.MustAccAddressFromBech32(from))
		switch x := m.(type) {
		case *types.MsgSendMessage:
			sm, v := next()
			if v != nil {
				return v
			}
			n, _ := respNonce(s.Res.Resps[i])
			if v := cmpMsg("C06", s.Idx, "message emitted by send", sm.Msg, 0, 4, x.DestinationDomain, n, fromPad, x.Recipient, make([]byte, 32), x.MessageBody); v != nil {
				return v
			}
			c.note(false, len(x.MessageBody), hexs(sm.Bytes))
		case *types.MsgSendMessageWithCaller:
			sm, v := next()
			if v != nil {
				return v
			}
			n, _ := respNonce(s.Res.Resps[i])
			if v := cmpMsg("C06", s.Idx, "message emitted by send-with-caller", sm.Msg, 0, 4, x.DestinationDomain, n, fromPad, x.Recipient, x.DestinationCaller, x.MessageBody); v != nil {
				return v
			}
			c.note(true, len(x.MessageBody), hexs(sm.Bytes))
		case *types.MsgDepositForBurn, *types.MsgDepositForBurnWithCaller:
			var amt *big.Int
			var dom uint32
			var mr, caller []byte
			var tok string
			switch y := m.(type) {
			case *types.MsgDepositForBurn:
				amt, dom, mr, tok = y.Amount.BigInt(), y.DestinationDomain, y.MintRecipient, y.BurnToken
			case *types.MsgDepositForBurnWithCaller:
				amt, dom, mr, tok, caller = y.Amount.BigInt(), y.DestinationDomain, y.MintRecipient, y.BurnToken, y.DestinationCaller
			}
			sm, v := next()
			if v != nil {
				return v
			}
			n, _ := respNonce(s.Res.Resps[i])
			body, _ := refcodec.EncodeBurn(&refcodec.Burn{Version: 0, BurnToken: attest.Keccak([]byte(strings.ToLower(s.Pre.L.Denom))), MintRecip: mr, Amount: amt, MsgSender: fromPad})
			_ = tok // the burn token of the message is that of the minting denom, however the request spelled it
			if v := cmpMsg("C06", s.Idx, "message emitted by deposit-for-burn", sm.Msg, 0, 4, dom, n, modPad, s.Pre.Msgrs[dom], zero32OrSame(caller), body); v != nil {
				return v
			}
			if di >= len(devs) {
				return viol("C06", s.Idx, "DepositForBurn event of a successful deposit", "present", "missing")
			}
			ev := devs[di]
			di++
			exp := fmt.Sprintf("nonce=%d amount=%s depositor=%s mint_recipient=%x domain=%d messenger=%x caller=%x", n, amt, from, mr, dom, s.Pre.Msgrs[dom], zero32OrSame(caller))
			got := fmt.Sprintf("nonce=%d amount=%s depositor=%s mint_recipient=%x domain=%d messenger=%x caller=%x", ev.Nonce, ev.Amount, ev.Depositor, ev.MintRecipient, ev.DestinationDomain, ev.DestinationTokenMessenger, zero32OrSame(ev.DestinationCaller))
			if exp != got {
				return viol("C06", s.Idx, "DepositForBurn event vs request", exp, got)
			}
			c.origTok[n] = ev.BurnToken
			c.deps++
			c.note(true, 132, hexs(sm.Bytes))
		case *types.MsgReplaceMessage:
			sm, v := next()
			if v != nil {
				return v
			}
			om, err := refcodec.DecodeMessage(x.OriginalMessage)
			if err != nil {
				return viol("C06", s.Idx, "successful replacement of an undecodable original", "failure", "success")
			}
			if v := cmpMsg("C06", s.Idx, "message emitted by replace-message", sm.Msg, 0, 4, om.Dest, om.Nonce, om.Sender, om.Recip, zero32OrSame(x.NewDestinationCaller), x.NewMessageBody); v != nil {
				return v
			}
			c.note(!sim.IsZero(x.NewDestinationCaller), len(x.NewMessageBody), hexs(sm.Bytes))
		case *types.MsgReplaceDepositForBurn:
			sm, v := next()
			if v != nil {
				return v
			}
			om, err := refcodec.DecodeMessage(x.OriginalMessage)
			if err != nil {
				return viol("C06", s.Idx, "successful deposit replacement of an undecodable original", "failure", "success")
			}
			ob, err := refcodec.DecodeBurn(om.Body)
			if err != nil {
				return viol("C06", s.Idx, "successful deposit replacement of a non-burn original", "failure", "success")
			}
			body, _ := refcodec.EncodeBurn(&refcodec.Burn{Version: ob.Version, BurnToken: ob.BurnToken, MintRecip: x.NewMintRecipient, Amount: ob.Amount, MsgSender: ob.MsgSender})
			if v := cmpMsg("C06", s.Idx, "message emitted by replace-deposit-for-burn", sm.Msg, 0, 4, om.Dest, om.Nonce, om.Sender, om.Recip, zero32OrSame(x.NewDestinationCaller), body); v != nil {
				return v
			}
			if di >= len(devs) {
				return viol("C06", s.Idx, "DepositForBurn event of a successful deposit replacement", "present", "missing")
			}
			ev := devs[di]
			di++
			exp := fmt.Sprintf("nonce=%d amount=%s depositor=%s mint_recipient=%x domain=%d messenger=%x caller=%x", om.Nonce, ob.Amount, from, x.NewMintRecipient, om.Dest, om.Recip, zero32OrSame(x.NewDestinationCaller))
			got := fmt.Sprintf("nonce=%d amount=%s depositor=%s mint_recipient=%x domain=%d messenger=%x caller=%x", ev.Nonce, ev.Amount, ev.Depositor, ev.MintRecipient, ev.DestinationDomain, ev.DestinationTokenMessenger, zero32OrSame(ev.DestinationCaller))
			if exp != got {
				return viol("C06", s.Idx, "DepositForBurn event of a replacement vs original message and request", exp, got)
			}
			if ot, ok := c.origTok[om.Nonce]; ok {
				if ev.BurnToken != ot {
					v := viol("C06", s.Idx, "replacement's DepositForBurn event names the same burn token as the original deposit's event", ot, ev.BurnToken)
					v.Sig = "replace-event-burn-token"
					return v
				}
			} else {
				c.skipped++
			}
			c.repdeps++
			c.note(true, 132, hexs(sm.Bytes))
		}
	}
	if si != len(s.Sent) {
		return viol("C06", s.Idx, "MessageSent events beyond the producing messages of the transaction", si, len(s.Sent))
	}
	if di != len(devs) {
		return viol("C06", s.Idx, "DepositForBurn events beyond the deposits of the transaction", di, len(devs))
	}
	return nil
}

func (c *c06) note(nt bool, bodyLen int, key string) {
	if nt || bodyLen >= 117 {
		c.keys = append(c.keys, hashKey(key))
	}
}

func (c *c06) End(w *sim.World) *Viol { return nil }

func (c *c06) Summary(w *sim.World) (string, []string) {
	var cls []string
	if c.deps > 0 {
		cls = append(cls, "has-deposit")
	}
	if c.repdeps > 0 {
		cls = append(cls, "has-deposit-replacement")
	}
	if c.repdeps > c.skipped {
		cls = append(cls, "replacement-event-vs-original-event")
	}
	if len(c.keys) > 0 {
		cls = append(cls, "nontrivial")
	}
	return strings.Join(c.keys, "\x1f"), cls
}

var C06 = register(&HistProp{ID: "C06",
	Genesis: func(t *rapid.T) *sim.GenSpec {
		return sim.DrawGenesis(t, sim.GenOpts{NoPause: true, BigBalances: true, MixedDenom: true})
	},
	Next: func(g *sim.G, i int) *sim.Op {
		g.NoForge = true
		return Mix{Send: 8, Dep: 8, Replace: 3, RepDep: 4, Admin: 2, Multi: 1, DepValid: 90, ReplaceValid: 90, AdminHolder: 90, Rollback: 3, MsgrProbe: 4,
			AdminTypes: []string{"UpdateMaxMessageBodySize", "AddRemoteTokenMessenger", "RemoveRemoteTokenMessenger", "SetMaxBurnAmountPerMessage", "EnableAttester", "UpdateSignatureThreshold"}}.next(g)
	},
	MinOps: 1, MaxOps: 20, New: func() Checker { return &c06{} },
	Require: []string{"nontrivial", "has-deposit", "replacement-event-vs-original-event"}})

// ---- C09: replacement can only re-target the submitter's own attested message ------------------------

type c09 struct {
	ok        int
	oneFalse  int
	keys      []string
	origClass map[string]int
}

func (c *c09) Begin(w *sim.World) { c.origClass = map[string]int{} }

func (c *c09) Step(w *sim.World, s *sim.Step) *Viol {
	if s.Op.Kind != "tx" || len(s.Msgs) != 1 {
		return nil
	}
	m := s.Msgs[0]
	k := sim.KindOf(m)
	if !isReplace(k) {
		return nil
	}
	if cl := s.Op.Meta["orig"]; cl != "" {
		c.origClass[cl]++
	}
	if !s.OK() {
		if s.Exp != nil && len(s.Exp.NecFalse) == 1 {
			c.oneFalse++
			c.keys = append(c.keys, hashKey("rej|"+s.Exp.NecFalse[0]+"|"+shapeKey(s)))
		}
		return unchanged("C09", s)
	}
	// success: every required condition must hold
	if s.Exp != nil && len(s.Exp.NecFalse) > 0 {
		return viol("C09", s.Idx, k+" succeeded although a required condition is false", "failure ("+strings.Join(s.Exp.NecFalse, ",")+")", "success")
	}
	var orig, newCaller []byte
	switch x := m.(type) {
	case *types.MsgReplaceMessage:
		orig, newCaller = x.OriginalMessage, x.NewDestinationCaller
	case *types.MsgReplaceDepositForBurn:
		orig, newCaller = x.OriginalMessage, x.NewDestinationCaller
	}
	om, err := refcodec.DecodeMessage(orig)
	if err != nil {
		return viol("C09", s.Idx, "replacement of an undecodable original succeeded", "failure", "success")
	}
	if len(s.Sent) != 1 || s.Sent[0].Msg == nil {
		return viol("C09", s.Idx, "exactly one well-formed MessageSent per successful replacement", 1, len(s.Sent))
	}
	nm := s.Sent[0].Msg
	keep := fmt.Sprintf("nonce=%d source=%d dest=%d sender=%x recipient=%x", om.Nonce, om.Source, om.Dest, om.Sender, om.Recip)
	got := fmt.Sprintf("nonce=%d source=%d dest=%d sender=%x recipient=%x", nm.Nonce, nm.Source, nm.Dest, nm.Sender, nm.Recip)
	if keep != got {
		return viol("C09", s.Idx, "fields a replacement must keep", keep, got)
	}
	if !eq(nm.Caller, zero32OrSame(newCaller)) { // (an absent caller and 32 zero bytes both say "anyone")
		return viol("C09", s.Idx, "destination caller of the replacement", hexs(newCaller), hexs(nm.Caller))
	}
	switch x := m.(type) {
	case *types.MsgReplaceMessage:
		if !eq(nm.Body, x.NewMessageBody) {
			return viol("C09", s.Idx, "body of the replacement", hexs(x.NewMessageBody), hexs(nm.Body))
		}
	case *types.MsgReplaceDepositForBurn:
		ob, err1 := refcodec.DecodeBurn(om.Body)
		nb, err2 := refcodec.DecodeBurn(nm.Body)
		if err1 != nil || err2 != nil {
			return viol("C09", s.Idx, "deposit replacement bodies are 132-byte burn messages", "both decodable", fmt.Sprint(err1, err2))
		}
		keep := fmt.Sprintf("version=%d token=%x amount=%s depositor=%x", ob.Version, ob.BurnToken, ob.Amount, ob.MsgSender)
		got := fmt.Sprintf("version=%d token=%x amount=%s depositor=%x", nb.Version, nb.BurnToken, nb.Amount, nb.MsgSender)
		if keep != got {
			return viol("C09", s.Idx, "burn-message fields a deposit replacement must keep", keep, got)
		}
		if !eq(nb.MintRecip, x.NewMintRecipient) {
			return viol("C09", s.Idx, "mint recipient of the replacement", hexs(x.NewMintRecipient), hexs(nb.MintRecip))
		}
	}
	// no funds, no nonce, no stored state
	if len(s.Calls) != 0 {
		return viol("C09", s.Idx, "replacement made dependency requests", "none", fmt.Sprint(s.Calls))
	}
	if len(s.Writes) != 0 {
		return viol("C09", s.Idx, "replacement wrote state", "no writes", fmt.Sprint(s.Writes))
	}
	if s.Single && (!sameDump(s.PreKV, s.PostKV) || !sameDump(s.PreLed, s.PostLed)) {
		return viol("C09", s.Idx, "replacement changed stored state", "no change", dumpDelta(s.PreKV, s.PostKV)+dumpDelta(s.PreLed, s.PostLed))
	}
	c.ok++
	c.keys = append(c.keys, hashKey("ok|"+hexs(s.Sent[0].Bytes)))
	return nil
}

func shapeKey(s *sim.Step) string { return s.Op.Label + "|" + s.Op.Meta["orig"] }

func (c *c09) End(w *sim.World) *Viol { return nil }

func (c *c09) Summary(w *sim.World) (string, []string) {
	var cls []string
	for k := range c.origClass {
		cls = append(cls, "original:"+k)
	}
	if c.ok > 0 {
		cls = append(cls, "successful-replacement")
	}
	if c.oneFalse > 0 {
		cls = append(cls, "rejected-one-condition-false")
	}
	if len(c.keys) > 0 {
		cls = append(cls, "nontrivial")
	}
	return strings.Join(c.keys, "\x1f"), cls
}

var C09 = register(&HistProp{ID: "C09",
	Genesis: func(t *rapid.T) *sim.GenSpec { return sim.DrawGenesis(t, sim.GenOpts{BigBalances: true, Decoys: true, NoAttesters: true}) },
	Next: func(g *sim.G, i int) *sim.Op {
		if op := queuedOp(g); op != nil {
			return op
		}
		if g.Pct("attrollback", 5) {
			// an attester-set change rolled back together with a failing message that read the set; then
			// replacements attested by the set as the change would have left it
			ops := rollbackProbeOf(g, "arb", []string{"EnableAttester", "DisableAttester", "UpdateSignatureThreshold"})
			queueOps(g, ops[1:]...)
			return ops[0]
		}
		return Mix{Send: 5, Dep: 5, Replace: 7, RepDep: 7, Admin: 4, DepValid: 92, ReplaceValid: 50, AdminHolder: 90, Rollback: 8, AttProbe: 3, MsgrProbe: 3,
			AdminTypes: []string{"PauseBurningAndMinting", "UnpauseBurningAndMinting", "UnpauseBurningAndMinting", "PauseSendingAndReceivingMessages", "UnpauseSendingAndReceivingMessages", "UnpauseSendingAndReceivingMessages",
				"EnableAttester", "DisableAttester", "UpdateSignatureThreshold", "UpdateMaxMessageBodySize"}}.next(g)
	},
	MinOps: 3, MaxOps: 30, New: func() Checker { return &c09{} },
	Require: []string{"nontrivial", "successful-replacement", "rejected-one-condition-false", "original:someone-elses", "original:foreign-domain", "original:forged-module", "original:own-badatt"}})
