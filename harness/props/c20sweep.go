package props

import (
	"bytes"
	"encoding/hex"
	"fmt"
	"math/big"
	"strings"

	"github.com/circlefin/noble-cctp/x/cctp/types"
	sdk "github.com/cosmos/cosmos-sdk/types"
	"github.com/cosmos/cosmos-sdk/types/bech32"
	"github.com/cosmos/gogoproto/proto"
	"google.golang.org/protobuf/encoding/protowire"

	"verif/harness/attest"
	"verif/harness/chain"
	"verif/harness/refcodec"
	"verif/harness/sim"
)

// ---- C20: deterministic length sweep ---------------------------------------------------------------------
//
// Random mutation finds hostile *content*; a fault that sits at one particular *length* of one field
// (an address payload of 33 bytes, a hex string of exactly 66 digits) is a needle for it. The sweep
// takes one request of every message and query type that is valid in a fixed state and re-sizes each
// variable-length field in turn to every length 0..72 (and a few larger ones), keeping the rest valid,
// so that the field is looked at by code that runs only after the earlier checks have passed.

func sweepGenesis() *sim.GenSpec {
	g := enumGenesis([4]int{0, 1, 2, 3})
	g.Ledger.Allowance = "1000000"
	g.Ledger.Balances = []chain.LedgerBal{{Addr: sim.Acct(4), Denom: "uusdc", Amount: "1000000"}}
	return g
}

// sweepMessages: one request of each of the 25 types, valid in sweepGenesis.
func sweepMessages() []sdk.Msg {
	a4 := sim.Acct(4)
	modPad := sim.Pad32(sim.ModuleAddrBytes())
	msgr := sim.Pad32([]byte{0xbb, 1})
	tok := sim.Pad32([]byte{0xaa, 1})
	zero := make([]byte, 32)
	burnIn, _ := refcodec.EncodeBurn(&refcodec.Burn{Version: 0, BurnToken: tok, MintRecip: sim.Pad32(sim.AcctBytes(4)), Amount: big.NewInt(7), MsgSender: sim.Pad32([]byte{1})})
	inbound, _ := refcodec.EncodeMessage(&refcodec.Message{Version: 0, Source: 0, Dest: 4, Nonce: 77, Sender: msgr, Recip: modPad, Caller: zero, Body: burnIn})
	own, _ := refcodec.EncodeMessage(&refcodec.Message{Version: 0, Source: 4, Dest: 0, Nonce: 3, Sender: sim.Pad32(sim.AcctBytes(4)), Recip: sim.Pad32([]byte{3}), Caller: zero, Body: []byte{1}})
	burnOut, _ := refcodec.EncodeBurn(&refcodec.Burn{Version: 0, BurnToken: attest.Keccak([]byte("uusdc")), MintRecip: sim.Pad32([]byte{9}), Amount: big.NewInt(5), MsgSender: sim.Pad32(sim.AcctBytes(4))})
	dep, _ := refcodec.EncodeMessage(&refcodec.Message{Version: 0, Source: 4, Dest: 0, Nonce: 4, Sender: modPad, Recip: msgr, Caller: zero, Body: burnOut})
	signers := []*attest.Key{attest.K(0)}
	att := func(m []byte) []byte { return attest.Attest(m, signers, attest.SigStyle{}) }
	var out []sdk.Msg
	for _, t := range sim.AdminTypes {
		by := sim.Acct(sim.RoleSlotOf(t) % 4)
		out = append(out, validAdmin(t, by, sim.Acct(5)))
	}
	out = append(out,
		&types.MsgSendMessage{From: a4, DestinationDomain: 0, Recipient: sim.Pad32([]byte{5}), MessageBody: []byte{1, 2, 3}},
		&types.MsgSendMessageWithCaller{From: a4, DestinationDomain: 0, Recipient: sim.Pad32([]byte{5}), MessageBody: []byte{1, 2, 3}, DestinationCaller: sim.Pad32([]byte{6})},
		&types.MsgDepositForBurn{From: a4, Amount: sim.Int(big.NewInt(5)), DestinationDomain: 0, MintRecipient: sim.Pad32([]byte{9}), BurnToken: "uusdc"},
		&types.MsgDepositForBurnWithCaller{From: a4, Amount: sim.Int(big.NewInt(5)), DestinationDomain: 0, MintRecipient: sim.Pad32([]byte{9}), BurnToken: "uusdc", DestinationCaller: sim.Pad32([]byte{6})},
		&types.MsgReceiveMessage{From: a4, Message: inbound, Attestation: att(inbound)},
		&types.MsgReplaceMessage{From: a4, OriginalMessage: own, OriginalAttestation: att(own), NewMessageBody: []byte{2}, NewDestinationCaller: zero},
		&types.MsgReplaceDepositForBurn{From: a4, OriginalMessage: dep, OriginalAttestation: att(dep), NewDestinationCaller: zero, NewMintRecipient: sim.Pad32([]byte{8})},
	)
	return out
}

func resize(v []byte, n int) []byte {
	if len(v) == 0 {
		v = []byte{0x5a}
	}
	out := make([]byte, n)
	for i := range out {
		out[i] = v[i%len(v)]
	}
	return out
}

var sweepLens = func() []int {
	var ls []int
	for n := 0; n <= 72; n++ {
		ls = append(ls, n)
	}
	return append(ls, 100, 115, 116, 117, 130, 131, 132, 133, 247, 248, 249, 255, 256, 300)
}()

// c20LengthSweep returns the number of inputs run and the first violation with its replayable case.
func c20LengthSweep() (int, *Viol, *c20case) {
	gs := sweepGenesis()
	w, err := sim.NewWorld(gs)
	if err != nil {
		return 0, viol("C20", 0, "HARNESS sweep world", "chain", err), nil
	}
	n := 0
	run := func(in c20input) (*Viol, *c20case) {
		n++
		if v := runInput(w.Chain, in, n); v != nil {
			if v.Sig != "" && isKnown(v.Property, v.Sig) != nil {
				return nil, nil
			}
			return v, &c20case{Gen: gs, Inputs: []c20input{in}}
		}
		return nil, nil
	}
	hrp := sdk.GetConfig().GetBech32AccountAddrPrefix()
	var l2 []c20input
	for _, msg := range sweepMessages() {
		url := sdk.MsgTypeURL(msg)
		bz, err := proto.Marshal(msg)
		if err != nil {
			return n, viol("C20", 0, "HARNESS marshal", "bytes", err), nil
		}
		fs := parseFields(bz)
		// the unmodified request first (it must at least not panic)
		if v, c := run(c20input{Kind: "msg-l1", TypeURL: url, Hex: hex.EncodeToString(bz), Note: "sweep base"}); v != nil {
			return n, v, c
		}
		for i, f := range fs {
			if f.Typ != protowire.BytesType {
				continue
			}
			variants := map[string][]byte{}
			for _, ln := range sweepLens {
				variants[fmt.Sprintf("len=%d", ln)] = resize(f.Val, ln)
			}
			if strings.HasPrefix(string(f.Val), hrp+"1") {
				// a well-formed account string whose payload has another length than 20 bytes
				for _, pl := range []int{0, 1, 2, 19, 21, 31, 32, 33, 34, 40, 64, 65, 128, 255, 256} {
					if s, err := bech32.ConvertAndEncode(hrp, bytes.Repeat([]byte{0x17}, pl)); err == nil {
						variants[fmt.Sprintf("bech32-payload=%d", pl)] = []byte(s)
					}
				}
			}
			for _, note := range sortedKeysB(variants) {
				out := append([]wireField{}, fs...)
				out[i] = bytesField(f.Num, variants[note])
				in := c20input{Kind: "msg-l1", TypeURL: url, Hex: hex.EncodeToString(joinFields(out)), Note: fmt.Sprintf("sweep field#%d %s", f.Num, note)}
				if v, c := run(in); v != nil {
					return n, v, c
				}
				if strings.HasPrefix(note, "bech32") || strings.HasSuffix(note, "=0") || strings.HasSuffix(note, "=33") || strings.HasSuffix(note, "=31") || strings.HasSuffix(note, "=64") {
					in.Kind = "msg-l2"
					l2 = append(l2, in)
				}
			}
		}
	}
	// hex-string and denom arguments of the single-item queries
	k0 := strings.TrimPrefix(attest.K(0).Spelling(0), "0x")
	tokHex := sim.Hex(sim.Pad32([]byte{0xaa, 1}))
	q := func(name string, req proto.Message, note string) (*Viol, *c20case) {
		bz, _ := proto.Marshal(req)
		return run(c20input{Kind: "query", TypeURL: name, Hex: hex.EncodeToString(bz), Note: note})
	}
	for _, pre := range []string{"", "0x", "0X"} {
		for d := 0; d <= 140; d++ {
			note := fmt.Sprintf("sweep %q + %d hex digits", pre, d)
			if d <= 72 {
				s := pre + string(resize([]byte(tokHex), d))
				if v, c := q("TokenPair", &types.QueryGetTokenPairRequest{RemoteDomain: 0, RemoteToken: s}, note); v != nil {
					return n, v, c
				}
			}
			s := pre + string(resize([]byte(k0), d))
			if v, c := q("Attester", &types.QueryGetAttesterRequest{Attester: s}, note); v != nil {
				return n, v, c
			}
		}
	}
	for d := 0; d <= 140; d++ {
		if v, c := q("PerMessageBurnLimit", &types.QueryGetPerMessageBurnLimitRequest{Denom: string(resize([]byte("uusdc"), d))}, fmt.Sprintf("sweep denom of %d chars", d)); v != nil {
			return n, v, c
		}
	}
	// the same shapes through the real transaction pipeline (those the transaction decoder lets through)
	for _, in := range l2 {
		if v, c := run(in); v != nil {
			return n, v, c
		}
	}
	return n, nil, nil
}

func sortedKeysB(m map[string][]byte) []string {
	var ks []string
	for k := range m {
		ks = append(ks, k)
	}
	// stable, human order is irrelevant: plain sort
	for i := 1; i < len(ks); i++ {
		for j := i; j > 0 && ks[j] < ks[j-1]; j-- {
			ks[j], ks[j-1] = ks[j-1], ks[j]
		}
	}
	return ks
}
