package props

import "testing"

func TestC07(t *testing.T) { C07.Run(t) }

func TestReplay(t *testing.T) { runReplay(t) }
func TestC02(t *testing.T) { C02.Run(t) }
func TestC03(t *testing.T) { C03.Run(t) }
func TestC08(t *testing.T) { C08.Run(t) }
func TestC04(t *testing.T) { C04.Run(t) }
func TestC05(t *testing.T) { C05.Run(t) }
func TestC06(t *testing.T) { C06.Run(t) }
func TestC09(t *testing.T) { C09.Run(t) }
func TestC10(t *testing.T)        { C10.Run(t) }
func TestC10Enum(t *testing.T)    { RunC10Enum(t) }
func TestC11(t *testing.T)        { C11.Run(t) }
func TestC11Closure(t *testing.T) { RunC11Closure(t) }
func TestC12(t *testing.T)        { C12.Run(t) }
func TestC13(t *testing.T)        { C13.Run(t) }
func TestC13Closure(t *testing.T) { RunC13Closure(t) }
func TestC15(t *testing.T) { C15.Run(t) }
func TestC19(t *testing.T) { C19.Run(t) }
func TestC14(t *testing.T) { C14.Run(t) }
func TestC16(t *testing.T)          { RunC16(t) }
func FuzzMessageCodec(f *testing.F) { fuzzMessageCodec(f) }
func FuzzBurnCodec(f *testing.F)    { fuzzBurnCodec(f) }
func TestC01(t *testing.T)         { RunC01(t) }
func TestC01L2(t *testing.T)       { C01L2.Run(t) }
func FuzzAttestation(f *testing.F) { fuzzAttestation(f) }
func TestC17(t *testing.T)         { RunC17(t) }
func TestC17Genesis(t *testing.T)  { RunC17Genesis(t) }
func FuzzGenesisJSON(f *testing.F) { fuzzGenesisJSON(f) }
func TestC20(t *testing.T)        { RunC20(t) }
func FuzzWireMsg(f *testing.F)    { fuzzWireMsg(f) }
func FuzzQuery(f *testing.F)      { fuzzQuery(f) }
func FuzzCLIAddress(f *testing.F) { fuzzCLIAddress(f) }
func TestC18(t *testing.T)      { RunC18(t) }
func TestC18Proc(t *testing.T)  { RunC18Proc(t) }
func TestC18Child(t *testing.T) { RunC18Child(t) }
func TestC03Enum(t *testing.T) { RunC03Enum(t) }
func TestC08Enum(t *testing.T) { RunC08Enum(t) }
func TestC19Big(t *testing.T) { RunC19Big(t) }
func TestC02Big(t *testing.T) { RunC02Big(t) }
func TestC10EnumOdd(t *testing.T) { RunC10EnumOdd(t) }
func TestC11ClosureOdd(t *testing.T) { RunC11ClosureOdd(t) }
