package props

import "testing"

func TestC07(t *testing.T) { C07.Run(t) }

func TestReplay(t *testing.T) { runReplay(t) }
