package props

import "testing"

func TestC07(t *testing.T) { C07.Run(t) }

func TestReplay(t *testing.T) { runReplay(t) }
func TestC02(t *testing.T) { C02.Run(t) }
func TestC03(t *testing.T) { C03.Run(t) }
func TestC08(t *testing.T) { C08.Run(t) }
