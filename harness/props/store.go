package props

import (
	"bytes"
	"encoding/hex"
	"fmt"
	"sort"
	"strings"

	"github.com/circlefin/noble-cctp/x/cctp/types"
	sdk "github.com/cosmos/cosmos-sdk/types"
	"github.com/cosmos/cosmos-sdk/types/query"
	"github.com/cosmos/gogoproto/proto"
	"pgregory.net/rapid"

	"verif/harness/sim"
)

// ---- all 19 queries (used by C15 and C19) ---------------------------------------------------------------

type queryCall struct {
	Method string
	Req    proto.Message
	Resp   func() proto.Message
}

func allQueries(w *sim.World) []queryCall {
	m := w.Model
	att, denom, dom, tok := "", m.L.Denom, uint32(0), ""
	if l := m.AttesterList(); len(l) > 0 {
		att = l[0]
	}
	// deterministic choice of arguments (never depend on Go map order)
	var pks []string
	for k := range m.Pairs {
		pks = append(pks, k)
	}
	sort.Strings(pks)
	if len(pks) > 0 {
		p := m.Pairs[pks[0]]
		dom, tok = p.Domain, "0x"+fmt.Sprintf("%x", p.Token)
	}
	var un types.QueryGetUsedNonceRequest
	var us []sim.UsedSpec
	for u := range m.Used {
		us = append(us, u)
	}
	sort.Slice(us, func(i, j int) bool {
		if us[i].Domain != us[j].Domain {
			return us[i].Domain < us[j].Domain
		}
		return us[i].Nonce < us[j].Nonce
	})
	if len(us) > 0 {
		un = types.QueryGetUsedNonceRequest{SourceDomain: us[0].Domain, Nonce: us[0].Nonce}
	}
	pg := &query.PageRequest{Limit: 3, CountTotal: true}
	var extra []queryCall
	for _, k := range pks {
		// a registry entry with a short remote token (genesis only), asked for in its 32-byte padded form
		if p := m.Pairs[k]; len(p.Token) < 32 {
			extra = append(extra, queryCall{"TokenPair", &types.QueryGetTokenPairRequest{RemoteDomain: p.Domain, RemoteToken: fmt.Sprintf("%x", sim.Pad32(p.Token))}, func() proto.Message { return &types.QueryGetTokenPairResponse{} }})
		}
	}
	return append(extra, []queryCall{
		{"Roles", &types.QueryRolesRequest{}, func() proto.Message { return &types.QueryRolesResponse{} }},
		{"Attester", &types.QueryGetAttesterRequest{Attester: att}, func() proto.Message { return &types.QueryGetAttesterResponse{} }},
		{"Attesters", &types.QueryAllAttestersRequest{Pagination: pg}, func() proto.Message { return &types.QueryAllAttestersResponse{} }},
		{"PerMessageBurnLimit", &types.QueryGetPerMessageBurnLimitRequest{Denom: denom}, func() proto.Message { return &types.QueryGetPerMessageBurnLimitResponse{} }},
		{"PerMessageBurnLimits", &types.QueryAllPerMessageBurnLimitsRequest{Pagination: pg}, func() proto.Message { return &types.QueryAllPerMessageBurnLimitsResponse{} }},
		{"BurningAndMintingPaused", &types.QueryGetBurningAndMintingPausedRequest{}, func() proto.Message { return &types.QueryGetBurningAndMintingPausedResponse{} }},
		{"SendingAndReceivingMessagesPaused", &types.QueryGetSendingAndReceivingMessagesPausedRequest{}, func() proto.Message { return &types.QueryGetSendingAndReceivingMessagesPausedResponse{} }},
		{"MaxMessageBodySize", &types.QueryGetMaxMessageBodySizeRequest{}, func() proto.Message { return &types.QueryGetMaxMessageBodySizeResponse{} }},
		{"NextAvailableNonce", &types.QueryGetNextAvailableNonceRequest{}, func() proto.Message { return &types.QueryGetNextAvailableNonceResponse{} }},
		{"SignatureThreshold", &types.QueryGetSignatureThresholdRequest{}, func() proto.Message { return &types.QueryGetSignatureThresholdResponse{} }},
		{"TokenPair", &types.QueryGetTokenPairRequest{RemoteDomain: dom, RemoteToken: tok}, func() proto.Message { return &types.QueryGetTokenPairResponse{} }},
		{"TokenPairs", &types.QueryAllTokenPairsRequest{Pagination: pg}, func() proto.Message { return &types.QueryAllTokenPairsResponse{} }},
		{"UsedNonce", &un, func() proto.Message { return &types.QueryGetUsedNonceResponse{} }},
		{"UsedNonces", &types.QueryAllUsedNoncesRequest{Pagination: pg}, func() proto.Message { return &types.QueryAllUsedNoncesResponse{} }},
		{"RemoteTokenMessenger", &types.QueryRemoteTokenMessengerRequest{DomainId: dom}, func() proto.Message { return &types.QueryRemoteTokenMessengerResponse{} }},
		{"RemoteTokenMessengers", &types.QueryRemoteTokenMessengersRequest{Pagination: pg}, func() proto.Message { return &types.QueryRemoteTokenMessengersResponse{} }},
		{"BurnMessageVersion", &types.QueryBurnMessageVersionRequest{}, func() proto.Message { return &types.QueryBurnMessageVersionResponse{} }},
		{"LocalMessageVersion", &types.QueryLocalMessageVersionRequest{}, func() proto.Message { return &types.QueryLocalMessageVersionResponse{} }},
		{"LocalDomain", &types.QueryLocalDomainRequest{}, func() proto.Message { return &types.QueryLocalDomainResponse{} }},
	}...)
}

// ---- C15: each transaction touches only the state it is documented to change -------------------------------

type c15 struct {
	types   map[string]int
	queries int
	keys    []string
	skipped int
	failed  int
}

func (c *c15) Begin(w *sim.World) { c.types = map[string]int{} }

func (c *c15) Step(w *sim.World, s *sim.Step) *Viol {
	if s.Op.Kind == "tx" && len(s.Msgs) > 0 {
		label := s.Op.Label
		if len(s.Msgs) == 1 {
			label = fmt.Sprintf("%T", s.Msgs[0])
		}
		if s.OK() {
			if s.Exp == nil || s.Exp.V == sim.MustFail {
				c.skipped++ // another property's violation or soft divergence; not judged here
			} else {
				doc := map[string]bool{}
				for _, k := range s.Exp.Writes {
					doc[k] = true
				}
				for _, wr := range s.Writes {
					if !doc[wr.Key] {
						return viol("C15", s.Idx, label+" wrote an entry outside its documented write set", fmt.Sprintf("%q", sortedKeys(doc)), fmt.Sprintf("%s %q", wr.Op, wr.Key))
					}
				}
				// the committed diff must stay inside the documented set as well
				if s.Single {
					for _, ch := range changedKeys(s.PreKV, s.PostKV) {
						if !doc[ch] {
							return viol("C15", s.Idx, label+" changed a stored entry outside its documented write set", fmt.Sprintf("%q", sortedKeys(doc)), fmt.Sprintf("%q", ch))
						}
					}
				}
				c.types[label]++
				if c.types[label] == 1 {
					c.keys = append(c.keys, label+"|ok|"+fmt.Sprint(len(s.Writes)))
				}
			}
		} else {
			c.failed++
			if v := unchanged("C15", s); v != nil {
				return v
			}
			if c.types[label+"/failed"] == 0 {
				c.keys = append(c.keys, label+"|failed")
			}
			c.types[label+"/failed"]++
		}
	}
	// queries and export write nothing (and change nothing)
	if s.Idx%3 == 0 {
		before := len(w.Chain.Rec.WritesOf(""))
		pre := w.Chain.RawKV(w.Chain.CctpKey)
		for _, q := range allQueries(w) {
			w.Chain.Query(q.Method, q.Req, q.Resp())
			c.queries++
		}
		if _, err := w.Chain.ExportJSON(); err != nil {
			return viol("C15", s.Idx, "genesis export", "ok", err)
		}
		if after := len(w.Chain.Rec.WritesOf("")); after != before {
			ws := w.Chain.Rec.WritesOf("")
			return viol("C15", s.Idx, "queries / genesis export wrote to the store", "no writes", fmt.Sprintf("%s %q", ws[len(ws)-1].Op, ws[len(ws)-1].Key))
		}
		if post := w.Chain.RawKV(w.Chain.CctpKey); !sameDump(pre, post) {
			return viol("C15", s.Idx, "queries / genesis export changed stored state", "no change", dumpDelta(pre, post))
		}
	}
	return nil
}

func changedKeys(pre, post []string) []string {
	pm, qm := map[string]string{}, map[string]string{}
	split := func(kv string) (string, string) {
		i := strings.IndexByte(kv, '=')
		k, _ := hex.DecodeString(kv[:i])
		return string(k), kv[i+1:]
	}
	for _, kv := range pre {
		k, v := split(kv)
		pm[k] = v
	}
	for _, kv := range post {
		k, v := split(kv)
		qm[k] = v
	}
	var out []string
	for k, v := range pm {
		if qv, ok := qm[k]; !ok || qv != v {
			out = append(out, k)
		}
	}
	for k := range qm {
		if _, ok := pm[k]; !ok {
			out = append(out, k)
		}
	}
	sort.Strings(out)
	return out
}

func (c *c15) End(w *sim.World) *Viol { return nil }

func (c *c15) Summary(w *sim.World) (string, []string) {
	var cls []string
	for k := range c.types {
		cls = append(cls, "type:"+strings.TrimPrefix(k, "*types."))
	}
	if c.queries > 0 {
		cls = append(cls, "queries+export")
	}
	if len(c.keys) > 0 {
		cls = append(cls, "nontrivial")
	}
	// distinct by (case shape, type) so that the same type in a new state class counts
	pre := hashKey(shapeOf(w))
	for i := range c.keys {
		c.keys[i] = pre + "|" + c.keys[i]
	}
	return strings.Join(c.keys, "\x1f"), cls
}

func c15required() []string {
	req := []string{"nontrivial", "queries+export"}
	for _, t := range []string{"MsgUpdateOwner", "MsgAcceptOwner", "MsgUpdateAttesterManager", "MsgUpdatePauser", "MsgUpdateTokenController", "MsgUpdateMaxMessageBodySize",
		"MsgAddRemoteTokenMessenger", "MsgRemoveRemoteTokenMessenger", "MsgEnableAttester", "MsgDisableAttester", "MsgUpdateSignatureThreshold",
		"MsgPauseBurningAndMinting", "MsgUnpauseBurningAndMinting", "MsgPauseSendingAndReceivingMessages", "MsgUnpauseSendingAndReceivingMessages",
		"MsgLinkTokenPair", "MsgUnlinkTokenPair", "MsgSetMaxBurnAmountPerMessage", "MsgSendMessage", "MsgSendMessageWithCaller", "MsgDepositForBurn",
		"MsgDepositForBurnWithCaller", "MsgReceiveMessage", "MsgReplaceMessage", "MsgReplaceDepositForBurn"} {
		req = append(req, "type:"+t, "type:"+t+"/failed")
	}
	return req
}

var C15 = register(&HistProp{ID: "C15",
	Genesis: func(t *rapid.T) *sim.GenSpec {
		return sim.DrawGenesis(t, sim.GenOpts{UsedInGen: true, BigBalances: true, ShortToken: true, UpperPairGen: true, AbsentOpt: true, CaseLimits: true})
	},
	Next: func(g *sim.G, i int) *sim.Op {
		return Mix{Send: 3, Dep: 3, Recv: 3, Replay: 1, Replace: 2, RepDep: 2, Admin: 10, Ledger: 1, Multi: 1,
			DepValid: 75, RecvBroken: 35, ReplaceValid: 70, AdminHolder: 75, FaultPct: 4, Rollback: 4, AttProbe: 3}.next(g)
	},
	MinOps: 5, MaxOps: 35, New: func() Checker { return &c15{} }, Require: c15required()})

// ---- C19: registries behave as exact maps and queries reflect them -------------------------------------------

func isRegistryMsg(m sdk.Msg) bool {
	switch m.(type) {
	case *types.MsgEnableAttester, *types.MsgDisableAttester, *types.MsgLinkTokenPair, *types.MsgUnlinkTokenPair,
		*types.MsgAddRemoteTokenMessenger, *types.MsgRemoveRemoteTokenMessenger, *types.MsgSetMaxBurnAmountPerMessage:
		return true
	}
	return false
}

type c19 struct {
	strict
	probes   map[string]bool // extra keys to probe with single-item queries
	removals int
	sweeps   int
	maxN     int
}

func (c *c19) Begin(w *sim.World) {
	c.strict.Begin(w)
	c.probes = map[string]bool{}
}

func q(w *sim.World, method string, req, resp proto.Message) bool {
	code, _ := w.Chain.Query(method, req, resp)
	return code == 0
}

// hexSpellings returns query spellings of a 32-byte token that must find it.
func hexSpellings(tok []byte) []string {
	h := fmt.Sprintf("%x", tok)
	out := []string{h, "0x" + h, strings.ToUpper(h), "0x" + strings.ToUpper(h)}
	// shorter, left-padded form: strip leading zero bytes (keep even length)
	t := bytes.TrimLeft(tok, "\x00")
	if len(t) < 32 && len(t) > 0 {
		out = append(out, fmt.Sprintf("%x", t), "0x"+fmt.Sprintf("%x", t))
	}
	return out
}

func (c *c19) Step(w *sim.World, s *sim.Step) *Viol {
	if v := c.strict.Step(w, s); v != nil {
		return v
	}
	m := w.Model
	// remember keys named by this op (and neighbours) for negative probes
	if s.Op.Kind == "tx" {
		for _, msg := range s.Msgs {
			switch x := msg.(type) {
			case *types.MsgLinkTokenPair:
				c.probes[fmt.Sprintf("pair|%d|%x", x.RemoteDomain, x.RemoteToken)] = true
			case *types.MsgUnlinkTokenPair:
				c.probes[fmt.Sprintf("pair|%d|%x", x.RemoteDomain, x.RemoteToken)] = true
				if s.OK() {
					c.removals++
				}
			case *types.MsgEnableAttester:
				c.probes["att|"+x.Attester] = true
			case *types.MsgDisableAttester:
				c.probes["att|"+x.Attester] = true
				if s.OK() {
					c.removals++
				}
			case *types.MsgAddRemoteTokenMessenger:
				c.probes[fmt.Sprintf("msgr|%d", x.DomainId)] = true
			case *types.MsgRemoveRemoteTokenMessenger:
				c.probes[fmt.Sprintf("msgr|%d", x.DomainId)] = true
				if s.OK() {
					c.removals++
				}
			case *types.MsgSetMaxBurnAmountPerMessage:
				c.probes["lim|"+x.LocalToken] = true
				c.probes["lim|"+strings.ToLower(x.LocalToken)] = true
			}
		}
	}
	// single-item queries: every live entry is found with its value
	for a := range m.Atts {
		var r types.QueryGetAttesterResponse
		if !q(w, "Attester", &types.QueryGetAttesterRequest{Attester: a}, &r) || r.Attester.Attester != a {
			return viol("C19", s.Idx, "attester query for an enabled attester", a, r.Attester.Attester)
		}
	}
	for d, lim := range m.Limits {
		var r types.QueryGetPerMessageBurnLimitResponse
		if !q(w, "PerMessageBurnLimit", &types.QueryGetPerMessageBurnLimitRequest{Denom: d}, &r) || r.BurnLimit.Denom != d || r.BurnLimit.Amount.IsNil() || r.BurnLimit.Amount.BigInt().Cmp(lim) != 0 {
			return viol("C19", s.Idx, "burn-limit query for "+d, lim, r.BurnLimit)
		}
	}
	for _, p := range m.Pairs {
		for _, sp := range hexSpellings(p.Token) {
			var r types.QueryGetTokenPairResponse
			if len(strings.TrimPrefix(sp, "0x")) < 64 {
				// a short spelling right after a query for an unrelated full-width token (the answer to
				// a query must not depend on the one asked before it)
				q(w, "TokenPair", &types.QueryGetTokenPairRequest{RemoteDomain: p.Domain, RemoteToken: strings.Repeat("f7", 32)}, &types.QueryGetTokenPairResponse{})
			}
			if !q(w, "TokenPair", &types.QueryGetTokenPairRequest{RemoteDomain: p.Domain, RemoteToken: sp}, &r) || r.Pair.LocalToken != p.Local || r.Pair.RemoteDomain != p.Domain || !eq(r.Pair.RemoteToken, p.Token) {
				return viol("C19", s.Idx, fmt.Sprintf("token-pair query (%d, %s)", p.Domain, sp), fmt.Sprintf("%d/%x=%s", p.Domain, p.Token, p.Local), fmt.Sprint(r.Pair))
			}
		}
		// odd-length spelling finds nothing
		var r types.QueryGetTokenPairResponse
		if h := fmt.Sprintf("%x", p.Token); h[0] != '0' && !pairExists(m, p.Domain, "0"+h[1:]) && q(w, "TokenPair", &types.QueryGetTokenPairRequest{RemoteDomain: p.Domain, RemoteToken: h[1:]}, &r) {
			return viol("C19", s.Idx, "token-pair query with an odd-length hex string", "not found", fmt.Sprint(r.Pair))
		}
	}
	for d, a := range m.Msgrs {
		var r types.QueryRemoteTokenMessengerResponse
		if !q(w, "RemoteTokenMessenger", &types.QueryRemoteTokenMessengerRequest{DomainId: d}, &r) || r.RemoteTokenMessenger.DomainId != d || !eq(r.RemoteTokenMessenger.Address, a) {
			return viol("C19", s.Idx, fmt.Sprintf("remote-token-messenger query for domain %d", d), fmt.Sprintf("%x", a), fmt.Sprint(r.RemoteTokenMessenger))
		}
	}
	for u := range m.Used {
		var r types.QueryGetUsedNonceResponse
		if !q(w, "UsedNonce", &types.QueryGetUsedNonceRequest{SourceDomain: u.Domain, Nonce: u.Nonce}, &r) {
			return viol("C19", s.Idx, fmt.Sprintf("used-nonce query (%d,%d)", u.Domain, u.Nonce), "found", "not found")
		}
	}
	// negative probes: named keys that do not exist are not found
	for p := range c.probes {
		parts := strings.SplitN(p, "|", 3)
		switch parts[0] {
		case "att":
			if !m.Atts[parts[1]] && q(w, "Attester", &types.QueryGetAttesterRequest{Attester: parts[1]}, &types.QueryGetAttesterResponse{}) {
				return viol("C19", s.Idx, "attester query for a string that is not enabled: "+parts[1], "not found", "found")
			}
		case "lim":
			if _, ok := m.Limits[parts[1]]; !ok && q(w, "PerMessageBurnLimit", &types.QueryGetPerMessageBurnLimitRequest{Denom: parts[1]}, &types.QueryGetPerMessageBurnLimitResponse{}) {
				return viol("C19", s.Idx, "burn-limit query for a denom without a limit: "+parts[1], "not found", "found")
			}
		case "pair":
			var d uint32
			fmt.Sscan(parts[1], &d)
			if _, ok := m.Pairs[parts[1]+"/"+parts[2]]; !ok && len(parts[2]) == 64 {
				if q(w, "TokenPair", &types.QueryGetTokenPairRequest{RemoteDomain: d, RemoteToken: parts[2]}, &types.QueryGetTokenPairResponse{}) {
					return viol("C19", s.Idx, "token-pair query for an unlinked key "+p, "not found", "found")
				}
			}
		case "msgr":
			var d uint32
			fmt.Sscan(parts[1], &d)
			if _, ok := m.Msgrs[d]; !ok && q(w, "RemoteTokenMessenger", &types.QueryRemoteTokenMessengerRequest{DomainId: d}, &types.QueryRemoteTokenMessengerResponse{}) {
				return viol("C19", s.Idx, "remote-token-messenger query for an unregistered domain "+parts[1], "not found", "found")
			}
		}
	}
	// scalar queries
	if v := c.scalars(w, s.Idx); v != nil {
		return v
	}
	// pagination sweeps at checkpoints
	if s.Idx%4 == 3 {
		if v := c.sweep(w, s.Idx); v != nil {
			return v
		}
	}
	return nil
}

func pairExists(m *sim.Model, d uint32, hexTok string) bool {
	_, ok := m.Pairs[fmt.Sprintf("%d/%s", d, hexTok)]
	return ok
}

func (c *c19) scalars(w *sim.World, idx int) *Viol {
	m := w.Model
	var rr types.QueryRolesResponse
	if !q(w, "Roles", &types.QueryRolesRequest{}, &rr) || rr.Owner != m.Roles[0] || rr.AttesterManager != m.Roles[1] || rr.Pauser != m.Roles[2] || rr.TokenController != m.Roles[3] {
		return viol("C19", idx, "roles query", fmt.Sprint(m.Roles), fmt.Sprint(rr))
	}
	var b1 types.QueryGetBurningAndMintingPausedResponse
	var b2 types.QueryGetSendingAndReceivingMessagesPausedResponse
	var ms types.QueryGetMaxMessageBodySizeResponse
	var nn types.QueryGetNextAvailableNonceResponse
	var st types.QueryGetSignatureThresholdResponse
	var bv types.QueryBurnMessageVersionResponse
	var lv types.QueryLocalMessageVersionResponse
	var ld types.QueryLocalDomainResponse
	ok := q(w, "BurningAndMintingPaused", &types.QueryGetBurningAndMintingPausedRequest{}, &b1) &&
		q(w, "SendingAndReceivingMessagesPaused", &types.QueryGetSendingAndReceivingMessagesPausedRequest{}, &b2) &&
		q(w, "MaxMessageBodySize", &types.QueryGetMaxMessageBodySizeRequest{}, &ms) &&
		q(w, "NextAvailableNonce", &types.QueryGetNextAvailableNonceRequest{}, &nn) &&
		q(w, "SignatureThreshold", &types.QueryGetSignatureThresholdRequest{}, &st) &&
		q(w, "BurnMessageVersion", &types.QueryBurnMessageVersionRequest{}, &bv) &&
		q(w, "LocalMessageVersion", &types.QueryLocalMessageVersionRequest{}, &lv) &&
		q(w, "LocalDomain", &types.QueryLocalDomainRequest{}, &ld)
	got := fmt.Sprintf("ok=%v bm=%v sr=%v max=%d next=%d thr=%d burnver=%d msgver=%d domain=%d", ok, b1.Paused.Paused, b2.Paused.Paused, ms.Amount.Amount, nn.Nonce.Nonce, st.Amount.Amount, bv.Version, lv.Version, ld.DomainId)
	want := fmt.Sprintf("ok=true bm=%v sr=%v max=%d next=%d thr=%d burnver=0 msgver=0 domain=4", m.BM, m.SR, m.MaxBody, m.Next, m.Thr)
	if got != want {
		return viol("C19", idx, "scalar queries", want, got)
	}
	return nil
}

// pageFn runs one list query and returns the items as strings plus the page response.
type pageFn func(w *sim.World, pr *query.PageRequest) ([]string, *query.PageResponse, bool)

func listFns() map[string]pageFn {
	return map[string]pageFn{
		"attesters": func(w *sim.World, pr *query.PageRequest) ([]string, *query.PageResponse, bool) {
			var r types.QueryAllAttestersResponse
			ok := q(w, "Attesters", &types.QueryAllAttestersRequest{Pagination: pr}, &r)
			var out []string
			for _, a := range r.Attesters {
				out = append(out, a.Attester)
			}
			return out, r.Pagination, ok
		},
		"limits": func(w *sim.World, pr *query.PageRequest) ([]string, *query.PageResponse, bool) {
			var r types.QueryAllPerMessageBurnLimitsResponse
			ok := q(w, "PerMessageBurnLimits", &types.QueryAllPerMessageBurnLimitsRequest{Pagination: pr}, &r)
			var out []string
			for _, a := range r.BurnLimits {
				out = append(out, a.Denom+"="+a.Amount.String())
			}
			return out, r.Pagination, ok
		},
		"pairs": func(w *sim.World, pr *query.PageRequest) ([]string, *query.PageResponse, bool) {
			var r types.QueryAllTokenPairsResponse
			ok := q(w, "TokenPairs", &types.QueryAllTokenPairsRequest{Pagination: pr}, &r)
			var out []string
			for _, a := range r.TokenPairs {
				out = append(out, fmt.Sprintf("%d/%x=%s", a.RemoteDomain, a.RemoteToken, a.LocalToken))
			}
			return out, r.Pagination, ok
		},
		"messengers": func(w *sim.World, pr *query.PageRequest) ([]string, *query.PageResponse, bool) {
			var r types.QueryRemoteTokenMessengersResponse
			ok := q(w, "RemoteTokenMessengers", &types.QueryRemoteTokenMessengersRequest{Pagination: pr}, &r)
			var out []string
			for _, a := range r.RemoteTokenMessengers {
				out = append(out, fmt.Sprintf("%d=%x", a.DomainId, a.Address))
			}
			return out, r.Pagination, ok
		},
		"used": func(w *sim.World, pr *query.PageRequest) ([]string, *query.PageResponse, bool) {
			var r types.QueryAllUsedNoncesResponse
			ok := q(w, "UsedNonces", &types.QueryAllUsedNoncesRequest{Pagination: pr}, &r)
			var out []string
			for _, a := range r.UsedNonces {
				out = append(out, fmt.Sprintf("%d/%d", a.SourceDomain, a.Nonce))
			}
			return out, r.Pagination, ok
		},
	}
}

func modelLists(m *sim.Model) map[string][]string {
	out := map[string][]string{}
	out["attesters"] = m.AttesterList()
	for d, a := range m.Limits {
		out["limits"] = append(out["limits"], d+"="+a.String())
	}
	for _, p := range m.Pairs {
		out["pairs"] = append(out["pairs"], fmt.Sprintf("%d/%x=%s", p.Domain, p.Token, p.Local))
	}
	for d, a := range m.Msgrs {
		out["messengers"] = append(out["messengers"], fmt.Sprintf("%d=%x", d, a))
	}
	for u := range m.Used {
		out["used"] = append(out["used"], fmt.Sprintf("%d/%d", u.Domain, u.Nonce))
	}
	for k := range out {
		sort.Strings(out[k])
	}
	return out
}

func (c *c19) sweep(w *sim.World, idx int) *Viol {
	want := modelLists(w.Model)
	for name, fn := range listFns() {
		exp := want[name]
		n := len(exp)
		if n > c.maxN {
			c.maxN = n
		}
		sizes := seqInts(n + 2)[1:]
		if n > 20 {
			// large registries: the boundary page sizes and the default page size of the SDK
			sizes = []int{1, 2, 7, 50, 99, 100, 101, n - 1, n, n + 1}
		}
		if n > 1000 {
			sizes = bigSizes(n)
		}
		for _, size := range sizes {
			for _, reverse := range []bool{false, true} {
				// key-cursor mode, without and with count_total (the SDK ignores the flag once a key is given; the
				// pages must not depend on it)
				var got []string
				for _, ct := range []bool{false, true} {
					if ct && n > 20 && n <= 1000 && size%2 == 0 {
						continue
					}
					got = nil
					var key []byte
					for page := 0; page <= n+1; page++ {
						items, pr, ok := fn(w, &query.PageRequest{Key: key, Limit: uint64(size), Reverse: reverse, CountTotal: ct})
						if !ok {
							return viol("C19", idx, name+" list query (key mode)", "answer", "error")
						}
						if len(items) > size {
							return viol("C19", idx, fmt.Sprintf("%s page larger than the requested size %d", name, size), size, len(items))
						}
						got = append(got, items...)
						if pr == nil || len(pr.NextKey) == 0 {
							break
						}
						key = pr.NextKey
					}
					sort.Strings(got)
					if fmt.Sprint(got) != fmt.Sprint(exp) {
						return viol("C19", idx, fmt.Sprintf("%s paginated by key cursor, page size %d, reverse=%v, count_total=%v: every entry exactly once", name, size, reverse, ct), exp, got)
					}
				}
				// offset mode with total
				got = nil
				for off := 0; off < n+size; off += size {
					items, pr, ok := fn(w, &query.PageRequest{Offset: uint64(off), Limit: uint64(size), CountTotal: true, Reverse: reverse})
					if !ok {
						return viol("C19", idx, name+" list query (offset mode)", "answer", "error")
					}
					if pr == nil || pr.Total != uint64(n) {
						t := uint64(0)
						if pr != nil {
							t = pr.Total
						}
						return viol("C19", idx, fmt.Sprintf("%s total with count_total (offset %d, size %d)", name, off, size), n, t)
					}
					got = append(got, items...)
				}
				sort.Strings(got)
				if fmt.Sprint(got) != fmt.Sprint(exp) {
					return viol("C19", idx, fmt.Sprintf("%s paginated by offset, page size %d, reverse=%v: every entry exactly once", name, size, reverse), exp, got)
				}
				c.sweeps++
			}
		}
	}
	return nil
}

func (c *c19) Summary(w *sim.World) (string, []string) {
	var cls []string
	if c.removals > 0 {
		cls = append(cls, "has-removal")
	}
	if c.sweeps > 0 {
		cls = append(cls, "pagination-sweep")
	}
	if c.maxN >= 3 {
		cls = append(cls, "registry>=3-entries")
	}
	if c.removals > 0 && c.maxN >= 3 && c.sweeps > 0 {
		cls = append(cls, "nontrivial")
		return shapeOf(w), cls
	}
	return "", cls
}

var C19 = register(&HistProp{ID: "C19",
	Genesis: func(t *rapid.T) *sim.GenSpec {
		return sim.DrawGenesis(t, sim.GenOpts{ManyEntries: true, UsedInGen: true, MaxAtt: 5, ManyUsed: true, AbsentOpt: true, CaseLimits: true, ManyRegistry: true})
	},
	Next: func(g *sim.G, i int) *sim.Op {
		if op := queuedOp(g); op != nil {
			return op
		}
		if m := g.W.Model; len(m.Pairs) > 0 && len(m.Pairs) <= 8 && g.Pct("drain", 3) {
			// a registry emptied entry by entry (the last removal must leave the other registries alone)
			var ops []*sim.Op
			switch g.Int("drainwhich", 0, 1) {
			case 0:
				var ps []sim.PairEntry
				for _, p := range m.Pairs {
					ps = append(ps, p)
				}
				sort.Slice(ps, func(i, j int) bool {
					return fmt.Sprintf("%d/%x", ps[i].Domain, ps[i].Token) < fmt.Sprintf("%d/%x", ps[j].Domain, ps[j].Token)
				})
				for _, p := range ps {
					ops = append(ops, sim.TxOp("admin:UnlinkTokenPair", &types.MsgUnlinkTokenPair{From: m.Roles[3], RemoteDomain: p.Domain, RemoteToken: append([]byte{}, p.Token...), LocalToken: p.Local}))
				}
			default:
				var ds []uint32
				for d := range m.Msgrs {
					ds = append(ds, d)
				}
				sort.Slice(ds, func(i, j int) bool { return ds[i] < ds[j] })
				if len(ds) > 8 {
					ds = ds[:8]
				}
				for _, d := range ds {
					ops = append(ops, sim.TxOp("admin:RemoveRemoteTokenMessenger", &types.MsgRemoveRemoteTokenMessenger{From: m.Roles[0], DomainId: d}))
				}
			}
			if len(ops) > 0 {
				queueOps(g, ops[1:]...)
				return ops[0]
			}
		}
		return Mix{Admin: 14, Recv: 3, Send: 1, Dep: 1, DepValid: 80, RecvBroken: 15, AdminHolder: 90, Rollback: 6, AttProbe: 3, Restart: 2,
			AdminTypes: []string{"EnableAttester", "DisableAttester", "LinkTokenPair", "LinkTokenPair", "UnlinkTokenPair", "UnlinkTokenPair", "AddRemoteTokenMessenger", "RemoveRemoteTokenMessenger",
				"SetMaxBurnAmountPerMessage", "SetMaxBurnAmountPerMessage", "UpdateSignatureThreshold", "UpdateMaxMessageBodySize", "PauseBurningAndMinting", "UnpauseBurningAndMinting", "UpdatePauser"}}.next(g)
	},
	MinOps: 4, MaxOps: 28,
	New: func() Checker {
		return &c19{strict: strict{id: "C19", applies: isRegistryMsg, fields: []string{"attesters", "limits", "pairs", "messengers", "used"}}}
	},
	Require: []string{"nontrivial", "has-removal", "pagination-sweep", "registry>=3-entries"}})
