package props

import (
	"fmt"
	"sort"
	"testing"

	"github.com/circlefin/noble-cctp/x/cctp/types"
	"github.com/cosmos/cosmos-sdk/types/query"

	"verif/harness/attest"
	"verif/harness/sim"
)

// ---- registries of more than a thousand entries -------------------------------------------------------
//
// Page limits above 1000 (clients that ask for "everything"), registries larger than any cap an implementation may
// apply to one page: deterministic, one chain per test. Used by C19 (all five lists) and C02 (used nonces).

// bigGenesis: every registry holds a little more than a thousand entries.
func bigGenesis(used, others int) *sim.GenSpec {
	gs := enumGenesis([4]int{0, 1, 2, 3})
	for i := 0; i < others; i++ {
		gs.Attesters = append(gs.Attesters, fmt.Sprintf("04%0128x", 1000+i)) // well-formed entries that are nobody's key
		gs.Limits = append(gs.Limits, sim.LimitSpec{Denom: fmt.Sprintf("udenom%04d", i), Amount: fmt.Sprint(i + 1)})
		gs.Pairs = append(gs.Pairs, sim.PairSpec{Domain: uint32(70 + i%5), Token: sim.Hex(attest.Keccak([]byte{byte(i), byte(i >> 8), 'b'})), Local: "uusdc"})
		gs.Messengers = append(gs.Messengers, sim.MsgrSpec{Domain: uint32(5000 + i), Addr: sim.Hex(sim.Pad32([]byte{byte(i), byte(i >> 8), 1}))})
	}
	for i := 0; i < used; i++ {
		gs.Used = append(gs.Used, sim.UsedSpec{Domain: uint32(i % 7), Nonce: uint64(i/7) * 3})
	}
	return gs
}

// bigSizes: page sizes around the registry size, around 1000, and "everything".
func bigSizes(n int) []int {
	out := []int{97, 100, 999, 1000, 1001, 1200, 5000, 1 << 40}
	for _, s := range []int{n - 1, n, n + 1} {
		if s > 0 {
			out = append(out, s)
		}
	}
	sort.Ints(out)
	return out
}

// RunC19Big: pagination sweeps (key cursor with and without count_total, offset mode, both directions) over
// registries of 1003..1207 entries; every entry exactly once, correct totals.
func RunC19Big(t *testing.T) {
	st := newStats("C19")
	st.ID = "C19-big"
	defer st.Write()
	gs := bigGenesis(1207, 1003)
	w, err := sim.NewWorld(gs)
	if err != nil {
		t.Fatalf("HARNESS: %v", err)
	}
	c := &c19{}
	if v := c.sweep(w, 0); v != nil {
		saveFail("C19", "c19-big", map[string]int{"used": 1207, "others": 1003}, v)
		t.Fatalf("VIOLATION %s", v)
	}
	st.Case("big-registries", func() any {
		return map[string]any{"registries": "1003 attesters/limits/pairs/messengers (+genesis entries), 1207 used nonces", "page_sizes": bigSizes(1207), "sweeps": c.sweeps}
	}, "big-registry-sweep")
	st.Evaluations += c.sweeps
}

// RunC02Big: 1207 used pairs from genesis and one received on top; the listing must show every pair whatever page
// size the client asks for.
func RunC02Big(t *testing.T) {
	st := newStats("C02")
	st.ID = "C02-big"
	defer st.Write()
	if v := c02big(1207); v != nil {
		saveFail("C02", "c02-big", map[string]int{"used": 1207}, v)
		t.Fatalf("VIOLATION %s", v)
	}
	st.Case("big-used-nonce-set", func() any {
		return map[string]any{"used_pairs": 1207, "page_sizes": bigSizes(1207)}
	}, "big-listing")
}

func c02big(used int) *Viol {
	gs := bigGenesis(used, 0)
	w, err := sim.NewWorld(gs)
	if err != nil {
		return nil
	}
	var want []string
	for _, u := range gs.Used {
		want = append(want, fmt.Sprintf("%d/%d", u.Domain, u.Nonce))
	}
	sort.Strings(want)
	for _, size := range bigSizes(len(want)) {
		for _, countTotal := range []bool{false, true} {
			var got []string
			var key []byte
			for page := 0; page <= len(want)+1; page++ {
				var resp types.QueryAllUsedNoncesResponse
				if code, lg := w.Chain.Query("UsedNonces", &types.QueryAllUsedNoncesRequest{Pagination: &query.PageRequest{Key: key, Limit: uint64(size), CountTotal: countTotal}}, &resp); code != 0 {
					return viol("C02", 0, "used-nonces list query", "answer", lg)
				}
				for _, n := range resp.UsedNonces {
					got = append(got, fmt.Sprintf("%d/%d", n.SourceDomain, n.Nonce))
				}
				if resp.Pagination == nil || len(resp.Pagination.NextKey) == 0 {
					break
				}
				key = resp.Pagination.NextKey
			}
			sort.Strings(got)
			if fmt.Sprint(got) != fmt.Sprint(want) {
				return viol("C02", 0, fmt.Sprintf("a client walking the used-nonce listing with page size %d (count_total=%v) sees every used pair exactly once (%d pairs used)", size, countTotal, len(want)), fmt.Sprintf("%d pairs", len(want)), fmt.Sprintf("%d pairs listed, first difference: %s", len(got), firstListDiff(want, got)))
			}
		}
	}
	return nil
}

func firstListDiff(want, got []string) string {
	for i := range want {
		if i >= len(got) || got[i] != want[i] {
			g := "<end>"
			if i < len(got) {
				g = got[i]
			}
			return fmt.Sprintf("position %d: want %s, got %s", i, want[i], g)
		}
	}
	if len(got) > len(want) {
		return "extra " + got[len(want)]
	}
	return ""
}

func init() {
	replayers["c02-big"] = func(raw []byte) *Viol {
		var m map[string]int
		mustJSON(raw, &m)
		return c02big(m["used"])
	}
	replayers["c19-big"] = func(raw []byte) *Viol {
		var m map[string]int
		mustJSON(raw, &m)
		w, err := sim.NewWorld(bigGenesis(m["used"], m["others"]))
		if err != nil {
			return nil
		}
		return (&c19{}).sweep(w, 0)
	}
}
