package props

import (
	"fmt"
	"math/big"
	"strings"
	"testing"

	"github.com/circlefin/noble-cctp/x/cctp/types"
	sdk "github.com/cosmos/cosmos-sdk/types"

	"verif/harness/attest"
	"verif/harness/chain"
	"verif/harness/refcodec"
	"verif/harness/sim"
)

// Bounded-exhaustive enumerations of the condition-subset lattices of C03 (receive)
// and C08 (deposit). Every subset of the conditions is falsified, with four value
// realisations each; the transaction runs through the real message router on a
// branch of a committed chain state that is diffed and discarded.
// Oracle: success <=> the falsified subset is empty; failure => no store changed.

var (
	enumTok  = sim.Pad32([]byte{0xaa, 1})
	enumMsgr = sim.Pad32([]byte{0xbb, 1})
)

// enumChain: two attesters (threshold 2), messenger and pair for domain 0, a zero-address
// messenger for domain 9, a limit of 1000, (0,7) already used, account 6 blacklisted,
// account 5 without funds.
func enumChain(sr, bm bool, maxBody uint64) (*sim.World, error) {
	g := &sim.GenSpec{Roles: [4]int{0, 1, 2, 3}, Attesters: []string{attest.K(0).Spelling(0), attest.K(1).Spelling(2)}, Threshold: 2, MaxBody: maxBody,
		SRPaused: sr, BMPaused: bm,
		Pairs:      []sim.PairSpec{{Domain: 0, Token: sim.Hex(enumTok), Local: "uusdc"}},
		Messengers: []sim.MsgrSpec{{Domain: 0, Addr: sim.Hex(enumMsgr)}, {Domain: 9, Addr: sim.Hex(make([]byte, 32))}},
		Limits:     []sim.LimitSpec{{Denom: "uusdc", Amount: "1000"}},
		Used:       []sim.UsedSpec{{Domain: 0, Nonce: 7}},
		Ledger: chain.LedgerGenesis{MintingDenom: "uusdc", ModuleIsMinter: true, Allowance: "5000", Blacklist: []string{sim.Acct(6)},
			Balances: []chain.LedgerBal{{Addr: sim.Acct(0), Denom: "uusdc", Amount: "100000"}, {Addr: sim.Acct(1), Denom: "uusdc", Amount: "100000"}, {Addr: sim.Acct(6), Denom: "uusdc", Amount: "100000"}}}}
	return sim.NewWorld(g)
}

// ---- C03 ----------------------------------------------------------------------------------------------

var c03conds = []string{"P1", "P2", "P4", "P5", "P6", "P7", "M1", "M2", "M3", "M4", "M5", "M6"}

type c03cell struct {
	Mask   int  `json:"mask"`   // bit i set = condition c03conds[i] falsified
	R      int  `json:"r"`      // realisation 0..3
	Module bool `json:"module"` // addressed to the module
}

func (c c03cell) has(name string) bool {
	for i, n := range c03conds {
		if n == name {
			return c.Mask&(1<<i) != 0
		}
	}
	return false
}

func (c c03cell) names() string {
	var out []string
	for i, n := range c03conds {
		if c.Mask&(1<<i) != 0 {
			out = append(out, n)
		}
	}
	return strings.Join(out, ",")
}

// c03build renders the cell as a receive message plus the ledger fault plan.
func c03build(c c03cell) (msg *types.MsgReceiveMessage, fault bool) {
	by := sim.Acct(0)
	m := &refcodec.Message{Version: 0, Source: 0, Dest: 4, Nonce: uint64(1000 + c.Mask*4 + c.R), Sender: append([]byte{}, enumMsgr...), Caller: make([]byte, 32)}
	if c.R%2 == 1 && !c.has("P7") {
		m.Caller = sim.Pad32(sim.AcctBytes(0))
	}
	if c.has("P4") {
		m.Dest = []uint32{0, 3, 5, 1<<32 - 1}[c.R]
	}
	if c.has("P5") {
		m.Version = []uint32{1, 2, 1 << 31, 1<<32 - 1}[c.R]
	}
	if c.has("P6") {
		m.Nonce = 7
	}
	if c.has("P7") {
		m.Caller = sim.Pad32(sim.AcctBytes(1 + c.R))
		if c.R == 3 {
			// non-zero only in the high 12 bytes: does not name the submitter
			m.Caller = make([]byte, 32)
			m.Caller[11] = 1
		}
	}
	if c.Module {
		m.Recip = sim.Pad32(sim.ModuleAddrBytes())
		b := &refcodec.Burn{Version: 0, BurnToken: append([]byte{}, enumTok...), MintRecip: sim.Pad32(sim.AcctBytes(2)), Amount: big.NewInt(int64(10 + c.R)), MsgSender: sim.Pad32([]byte{9})}
		if c.has("M3") {
			b.Version = []uint32{1, 2, 256, 1<<32 - 1}[c.R]
		}
		if c.has("M4") {
			m.Sender = sim.Pad32([]byte{0xbb, byte(2 + c.R)})
		}
		if c.has("M5") {
			b.BurnToken = sim.Pad32([]byte{0xaa, byte(2 + c.R)})
		}
		if c.has("M6") {
			switch c.R {
			case 0:
				b.Amount = big.NewInt(5001) // above the minter allowance
			case 1:
				b.MintRecip = sim.Pad32(sim.AcctBytes(6)) // blacklisted recipient
			case 2:
				b.Amount = big.NewInt(0)
			default:
				fault = true
			}
		}
		body, _ := refcodec.EncodeBurn(b)
		if c.has("M2") {
			switch c.R {
			case 0:
				body = body[:131]
			case 1:
				body = append(body, 0)
			case 2:
				body = append(body, make([]byte, 32)...) // one whole 32-byte word too many
			default:
				body = body[:4]
			}
		}
		m.Body = body
	} else {
		m.Recip = sim.Pad32([]byte{0x77, byte(c.R)})
		m.Body = []byte{1, 2, 3, byte(c.R)}
	}
	bz, _ := refcodec.EncodeMessage(m)
	ks := []*attest.Key{attest.K(0), attest.K(1)}
	att := attest.Attest(bz, ks, attest.SigStyle{Legacy: c.R == 1, Twin: c.R == 2})
	if c.has("P2") {
		switch c.R {
		case 0:
			att = att[:65]
		case 1:
			att = attest.Attest(append(append([]byte{}, bz...), 0), ks, attest.SigStyle{})
		case 2:
			att = attest.Attest(bz, []*attest.Key{attest.K(0), attest.K(5)}, attest.SigStyle{})
		default:
			att = append(append([]byte{}, att[65:]...), att[:65]...)
		}
	}
	return &types.MsgReceiveMessage{From: by, Message: bz, Attestation: att}, fault
}

func c03cellCheck(c c03cell, worlds map[string]*sim.World) *Viol {
	w := worlds[fmt.Sprintf("%v/%v", c.has("P1"), c.has("M1"))]
	msg, fault := c03build(c)
	tag := fmt.Sprintf("c03enum/%d/%d/%v", c.Mask, c.R, c.Module)
	if fault {
		w.Chain.Ledger.SetFaults(chain.TagOf([]byte(tag)), []int{0})
	}
	ok, changed, errText := branchExec(w.Chain, tag, msg)
	applicable := c.Mask
	if !c.Module {
		applicable &= 1<<6 - 1 // only the P conditions exist for other recipients
	}
	what := fmt.Sprintf("receive with falsified {%s} (realisation %d, module=%v)", c.names(), c.R, c.Module)
	if applicable == 0 {
		if !ok {
			return viol("C03", 0, what+": every acceptance condition holds", "success", "failure: "+errText)
		}
		return nil
	}
	if ok {
		return viol("C03", 0, what, "failure", "success")
	}
	if changed != "" {
		return viol("C03", 0, what+": failed receive changed state", "no change", changed)
	}
	return nil
}

func c03worlds() (map[string]*sim.World, error) {
	ws := map[string]*sim.World{}
	for _, sr := range []bool{false, true} {
		for _, bm := range []bool{false, true} {
			w, err := enumChain(sr, bm, 8000)
			if err != nil {
				return nil, err
			}
			ws[fmt.Sprintf("%v/%v", sr, bm)] = w
		}
	}
	return ws, nil
}

func RunC03Enum(t *testing.T) {
	st := newStats("C03")
	st.ID = "C03-enum"
	defer st.Write()
	ws, err := c03worlds()
	if err != nil {
		t.Fatalf("HARNESS %v", err)
	}
	n := 0
	for _, module := range []bool{true, false} {
		max := 1 << 12
		if !module {
			max = 1 << 6
		}
		for mask := 0; mask < max; mask++ {
			for r := 0; r < 4; r++ {
				c := c03cell{Mask: mask, R: r, Module: module}
				if v := c03cellCheck(c, ws); v != nil {
					saveFail("C03", "c03-enum", c, v)
					t.Fatalf("VIOLATION %s", v)
				}
				n++
				cc := c
				st.Case(fmt.Sprintf("%d/%d/%v", mask, r, module), func() any { return map[string]any{"falsified": cc.names(), "realisation": cc.R, "module": cc.Module} }, fmt.Sprintf("falsified:%d", popcount(mask)))
			}
		}
	}
	// P3: every truncation of an otherwise acceptable message
	w := ws["false/false"]
	full, _ := c03build(c03cell{Module: true})
	for l := 0; l < 116; l++ {
		bz := full.Message[:l]
		att := attest.Attest(bz, []*attest.Key{attest.K(0), attest.K(1)}, attest.SigStyle{})
		ok, changed, _ := branchExec(w.Chain, fmt.Sprintf("c03p3/%d", l), &types.MsgReceiveMessage{From: sim.Acct(0), Message: bz, Attestation: att})
		if ok || changed != "" {
			v := viol("C03", 0, fmt.Sprintf("receive of a validly attested %d-byte message (no full header)", l), "failure without effect", fmt.Sprintf("ok=%v changed=%s", ok, changed))
			saveFail("C03", "c03-enum", c03cell{Mask: -l - 1}, v)
			t.Fatalf("VIOLATION %s", v)
		}
		st.Case("", nil, "short-header")
		n++
	}
	st.Exhaustive = true
	st.Extra["enumeration"] = fmt.Sprintf("%d attempts = all 2^12 subsets of {%s} x 4 realisations (module recipient) + all 2^6 subsets of the P conditions x 4 (other recipient) + 116 header truncations", n, strings.Join(c03conds, ","))
}

func init() {
	replayers["c03-enum"] = func(raw []byte) *Viol {
		var c c03cell
		mustJSON(raw, &c)
		ws, err := c03worlds()
		if err != nil || c.Mask < 0 {
			return nil
		}
		return c03cellCheck(c, ws)
	}
}

// ---- C08 ----------------------------------------------------------------------------------------------

var c08conds = []string{"amount-positive", "limit", "token", "recipient", "messenger", "bm-unpaused", "sr-unpaused", "body-fits", "can-pay", "burn-ok", "caller"}

type c08cell struct {
	Mask int `json:"mask"`
	R    int `json:"r"`
}

func (c c08cell) has(name string) bool {
	for i, n := range c08conds {
		if n == name {
			return c.Mask&(1<<i) != 0
		}
	}
	return false
}

func (c c08cell) names() string {
	var out []string
	for i, n := range c08conds {
		if c.Mask&(1<<i) != 0 {
			out = append(out, n)
		}
	}
	return strings.Join(out, ",")
}

// c08build: realisable reports whether the subset can be realised (amount<=0 together with
// amount>limit needs a negative limit, which the fixed configuration does not have).
func c08build(c c08cell) (msg sdk.Msg, faults []int, realisable bool) {
	by := sim.Acct(c.R % 2) // funded accounts 0 and 1
	amt := big.NewInt([]int64{1, 999, 1000, 500}[c.R])
	if c.has("limit") {
		amt = big.NewInt([]int64{1001, 1002, 5000, 100000}[c.R])
	}
	if c.has("amount-positive") {
		if c.has("limit") {
			return nil, nil, false
		}
		amt = big.NewInt([]int64{0, -1, -1000, 0}[c.R])
	}
	tok := "uusdc"
	if c.has("token") {
		tok = []string{"uother", "", "UUSDC", "uuſdc"}[c.R] // strict ledger: a case variant is not the minting denom
	}
	mr := sim.Pad32([]byte{5, byte(c.R)})
	if c.has("recipient") {
		mr = [][]byte{make([]byte, 32), nil, sim.Pad32([]byte{5})[:31], append(sim.Pad32([]byte{5}), 1)}[c.R]
	}
	dom := uint32(0)
	if c.has("messenger") {
		dom = []uint32{3, 9, 1<<32 - 1, 9}[c.R] // 9 = registered with the zero address
	}
	if c.has("can-pay") {
		switch c.R {
		case 0, 1:
			by = sim.Acct(5) // no funds
		case 2:
			by = sim.Acct(6) // blacklisted
		default:
			faults = append(faults, 0)
		}
	}
	if c.has("burn-ok") {
		faults = append(faults, 1)
	}
	caller := sim.Pad32([]byte{6, byte(c.R)})
	if c.has("caller") {
		caller = [][]byte{make([]byte, 32), nil, sim.Pad32([]byte{6})[:31], append(sim.Pad32([]byte{6}), 1)}[c.R]
	}
	return &types.MsgDepositForBurnWithCaller{From: by, Amount: sim.Int(amt), DestinationDomain: dom, MintRecipient: mr, BurnToken: tok, DestinationCaller: caller}, faults, true
}

func c08worlds() (map[string]*sim.World, error) {
	ws := map[string]*sim.World{}
	for _, sr := range []bool{false, true} {
		for _, bm := range []bool{false, true} {
			for _, mb := range []uint64{8000, 131} {
				w, err := enumChain(sr, bm, mb)
				if err != nil {
					return nil, err
				}
				ws[fmt.Sprintf("%v/%v/%d", sr, bm, mb)] = w
			}
		}
	}
	return ws, nil
}

func c08cellCheck(c c08cell, worlds map[string]*sim.World) (v *Viol, realisable bool) {
	msg, faults, ok := c08build(c)
	if !ok {
		return nil, false
	}
	mb := 8000
	if c.has("body-fits") {
		mb = 131
	}
	w := worlds[fmt.Sprintf("%v/%v/%d", c.has("sr-unpaused"), c.has("bm-unpaused"), mb)]
	tag := fmt.Sprintf("c08enum/%d/%d", c.Mask, c.R)
	// the burn fault only bites if the transfer was reached and succeeded; ordinal 1 is the burn
	if len(faults) > 0 {
		w.Chain.Ledger.SetFaults(chain.TagOf([]byte(tag)), faults)
	}
	succ, changed, errText := branchExec(w.Chain, tag, msg)
	what := fmt.Sprintf("deposit-for-burn-with-caller with falsified {%s} (realisation %d)", c.names(), c.R)
	if c.Mask == 0 {
		if !succ {
			return viol("C08", 0, what+": every precondition holds", "success", "failure: "+errText), true
		}
		return nil, true
	}
	if succ {
		return viol("C08", 0, what, "failure", "success"), true
	}
	if changed != "" {
		return viol("C08", 0, what+": failed deposit changed state", "no change", changed), true
	}
	return nil, true
}

func RunC08Enum(t *testing.T) {
	st := newStats("C08")
	st.ID = "C08-enum"
	defer st.Write()
	ws, err := c08worlds()
	if err != nil {
		t.Fatalf("HARNESS %v", err)
	}
	n, skipped := 0, 0
	for mask := 0; mask < 1<<11; mask++ {
		for r := 0; r < 4; r++ {
			c := c08cell{Mask: mask, R: r}
			v, real := c08cellCheck(c, ws)
			if !real {
				skipped++
				continue
			}
			if v != nil {
				saveFail("C08", "c08-enum", c, v)
				t.Fatalf("VIOLATION %s", v)
			}
			n++
			cc := c
			st.Case(fmt.Sprintf("%d/%d", mask, r), func() any { return map[string]any{"falsified": cc.names(), "realisation": cc.R} }, fmt.Sprintf("falsified:%d", popcount(mask)))
		}
	}
	// boundary sweep: amount = limit-1, limit, limit+1 for several limits through the real setter
	st.Exhaustive = true
	st.Extra["enumeration"] = fmt.Sprintf("%d deposits = all 2^11 subsets of {%s} x 4 realisations; %d cells unrealisable (amount<=0 together with amount>limit) skipped", n, strings.Join(c08conds, ","), skipped)
}

func init() {
	replayers["c08-enum"] = func(raw []byte) *Viol {
		var c c08cell
		mustJSON(raw, &c)
		ws, err := c08worlds()
		if err != nil {
			return nil
		}
		v, _ := c08cellCheck(c, ws)
		return v
	}
}
