package props

import (
	"fmt"

	"github.com/circlefin/noble-cctp/x/cctp/types"
	"github.com/cosmos/gogoproto/proto"
	"pgregory.net/rapid"

	"verif/harness/refcodec"
	"verif/harness/sim"
)

// respNonce extracts the nonce of a producing message's response.
func respNonce(m proto.Message) (uint64, bool) {
	switch r := m.(type) {
	case *types.MsgSendMessageResponse:
		return r.Nonce, true
	case *types.MsgSendMessageWithCallerResponse:
		return r.Nonce, true
	case *types.MsgDepositForBurnResponse:
		return r.Nonce, true
	case *types.MsgDepositForBurnWithCallerResponse:
		return r.Nonce, true
	}
	return 0, false
}

func isProducer(k string) bool { return k == "send" || k == "sendc" || k == "dep" || k == "depc" }
func isReplace(k string) bool  { return k == "replace" || k == "repdep" }

func queryNext(w *sim.World) (uint64, error) {
	var resp types.QueryGetNextAvailableNonceResponse
	if code, lg := w.Chain.Query("NextAvailableNonce", &types.QueryGetNextAvailableNonceRequest{}, &resp); code != 0 {
		return 0, fmt.Errorf("query failed: %d %s", code, lg)
	}
	return resp.Nonce.Nonce, nil
}

// ---- C07: outbound nonces are unique, consecutive and never reused --------------------------------

type c07 struct {
	start     uint64
	successes uint64
	kinds     map[string]bool
	failures  int
	replaces  int
	multiFail int
}

func (c *c07) Begin(w *sim.World) { c.start = w.Gen.NextNonce; c.kinds = map[string]bool{} }

func (c *c07) Step(w *sim.World, s *sim.Step) *Viol {
	if s.Op.Kind != "tx" {
		return nil
	}
	if s.OK() {
		si := 0 // index into s.Sent
		if len(s.Res.Resps) != len(s.Msgs) {
			return viol("C07", s.Idx, "number of message responses", len(s.Msgs), len(s.Res.Resps))
		}
		for i, m := range s.Msgs {
			k := sim.KindOf(m)
			switch {
			case isProducer(k):
				want := c.start + c.successes
				got, ok := respNonce(s.Res.Resps[i])
				if !ok {
					return viol("C07", s.Idx, "response type of producing message", "nonce response", fmt.Sprintf("%T", s.Res.Resps[i]))
				}
				if got != want {
					return viol("C07", s.Idx, "response nonce of the k-th successful outbound message", want, got)
				}
				if si >= len(s.Sent) || s.Sent[si].Msg == nil {
					return viol("C07", s.Idx, "MessageSent event of a successful producing message", "present and well-formed", "missing")
				}
				if s.Sent[si].Msg.Nonce != got {
					return viol("C07", s.Idx, "nonce embedded in the emitted message vs response", got, s.Sent[si].Msg.Nonce)
				}
				si++
				c.successes++
				c.kinds[k] = true
			case isReplace(k):
				var orig []byte
				switch x := m.(type) {
				case *types.MsgReplaceMessage:
					orig = x.OriginalMessage
				case *types.MsgReplaceDepositForBurn:
					orig = x.OriginalMessage
				}
				om, err := refcodec.DecodeMessage(orig)
				if err != nil {
					return viol("C07", s.Idx, "successful replacement of an undecodable original", "failure", "success")
				}
				if si >= len(s.Sent) || s.Sent[si].Msg == nil {
					return viol("C07", s.Idx, "MessageSent event of a successful replacement", "present", "missing")
				}
				if s.Sent[si].Msg.Nonce != om.Nonce {
					return viol("C07", s.Idx, "replacement must reuse the original nonce", om.Nonce, s.Sent[si].Msg.Nonce)
				}
				si++
				c.replaces++
			}
		}
		if si != len(s.Sent) {
			return viol("C07", s.Idx, "number of MessageSent events in the transaction", si, len(s.Sent))
		}
	} else {
		c.failures++
		if len(s.Msgs) > 1 {
			c.multiFail++
		}
	}
	got, err := queryNext(w)
	if err != nil {
		return viol("C07", s.Idx, "next-available-nonce query", "answer", err)
	}
	if want := c.start + c.successes; got != want {
		return viol("C07", s.Idx, "next-available-nonce query = start + successes", want, got)
	}
	return nil
}

func (c *c07) End(w *sim.World) *Viol { return nil }

func (c *c07) Summary(w *sim.World) (string, []string) {
	var cls []string
	for k := range c.kinds {
		cls = append(cls, "producer:"+k)
	}
	if c.replaces > 0 {
		cls = append(cls, "has-replacement")
	}
	if c.failures > 0 {
		cls = append(cls, "has-failure")
	}
	if c.multiFail > 0 {
		cls = append(cls, "multi-msg-tx-failing")
	}
	nt := ""
	if c.successes >= 3 && len(c.kinds) >= 2 && c.failures >= 1 && c.replaces >= 1 {
		nt = fmt.Sprintf("%d|%s", c.start, shapeOf(w))
		cls = append(cls, "nontrivial")
	}
	return nt, cls
}

func genC07(t *rapid.T) *sim.GenSpec {
	start := rapid.SampledFrom([]uint64{0, 0, 1, 1<<32 - 1, 1 << 32, 1 << 63, 1<<64 - 100, 1<<64 - 3, 1<<64 - 1,
		1<<7 - 1, 1 << 7, 1 << 14, 1 << 21, 1 << 28, 1 << 35, 1<<42 - 2, 1 << 42, 1<<45 + 99, 1<<49 - 2, 1 << 49, 1 << 56}).Draw(t, "start")
	gs := sim.DrawGenesis(t, sim.GenOpts{StartNonce: &start, NoPause: true})
	if rapid.IntRange(0, 5).Draw(t, "limit-without-amount") == 0 {
		// a burn-limit entry for another denom whose amount the file leaves out: everything else in the file counts
		gs.Limits = append([]sim.LimitSpec{{Denom: "uforgotten", Amount: sim.AbsentAmount}}, gs.Limits...)
	}
	return gs
}

func nextC07(g *sim.G, i int) *sim.Op {
	if i > 0 && g.Pct("restart", 3) {
		return restartOp(g)
	}
	switch k := g.Int("op", 0, 19); {
	case k <= 4:
		return g.SendOp("send")
	case k <= 9:
		return g.DepositOp("dep", 85)
	case k <= 12:
		return g.ReplaceOp("rep", 80)
	case k <= 14:
		return g.RepDepOp("repdep", 80)
	case k == 15:
		// multi-message transaction: a producer followed by something that may fail
		a := g.SendOp("m1")
		var b *sim.Op
		if g.Bool("m2dep") {
			b = g.DepositOp("m2", 40)
		} else {
			b = g.SendOp("m2")
		}
		return sim.Multi(a, b)
	case k == 16:
		return g.AdminOp("admin", 90, []string{"PauseSendingAndReceivingMessages", "UnpauseSendingAndReceivingMessages", "UnpauseSendingAndReceivingMessages", "PauseBurningAndMinting", "UnpauseBurningAndMinting", "UnpauseBurningAndMinting", "UpdateMaxMessageBodySize"})
	case k == 17:
		return g.RecvOp("recv", 30)
	default:
		return g.AdminOp("admin", 60, nil)
	}
}

var C07 = register(&HistProp{ID: "C07", Genesis: genC07, Next: nextC07, MinOps: 4, MaxOps: 30,
	New: func() Checker { return &c07{} }, Require: []string{"nontrivial", "has-replacement", "multi-msg-tx-failing"}})
