package props

import (
	"context"
	"encoding/hex"
	"encoding/json"
	"fmt"
	"reflect"
	"strings"
	"testing"

	abci "github.com/cometbft/cometbft/abci/types"
	txtypes "github.com/cosmos/cosmos-sdk/types/tx"
	"github.com/cosmos/cosmos-sdk/types/query"
	codectypes "github.com/cosmos/cosmos-sdk/codec/types"
	sdk "github.com/cosmos/cosmos-sdk/types"
	"github.com/cosmos/gogoproto/proto"
	"google.golang.org/protobuf/encoding/protowire"
	"pgregory.net/rapid"

	"github.com/circlefin/noble-cctp/x/cctp/client/cli"
	"github.com/circlefin/noble-cctp/x/cctp/keeper"
	"github.com/circlefin/noble-cctp/x/cctp/types"

	"verif/harness/chain"
	"verif/harness/sim"
)

// ---- C20: no input crashes a handler, query, decoder or CLI address parser -----------------------------

// c20input is one hostile input, replayable.
type c20input struct {
	Kind    string `json:"kind"`              // msg-l1 | msg-l2 | query | query-nil | decode-msg | decode-burn | verify | cli
	TypeURL string `json:"type_url,omitempty"` // message type or query method
	Hex     string `json:"hex,omitempty"`      // wire bytes (msg, query request) or raw bytes
	Str     string `json:"str,omitempty"`      // cli string
	Thr     uint32 `json:"thr,omitempty"`
	Note    string `json:"note,omitempty"`
}

type c20case struct {
	GenesisJSON json.RawMessage     `json:"genesis_json,omitempty"` // hostile genesis (module part)
	Gen         *sim.GenSpec        `json:"genesis,omitempty"`      // or a regular one
	Setup       []*sim.Op           `json:"setup,omitempty"`
	Inputs      []c20input          `json:"inputs"`
}

const sigPaginateReverse = "sdk-paginate-reverse-with-key-at-or-after-last-entry"

// isPaginateReverseKey: the request's pagination (field 1) asks for reverse order with a key cursor.
func isPaginateReverseKey(req []byte) bool {
	for _, f := range parseFields(req) {
		if f.Num == 1 && f.Typ == protowire.BytesType {
			var pr query.PageRequest
			if err := proto.Unmarshal(f.Val, &pr); err == nil && pr.Reverse && len(pr.Key) > 0 {
				return true
			}
		}
	}
	return false
}

// knownOrViol filters a violation through the known-findings list.
func knownOrViol(v *Viol, st *Stats) *Viol {
	if v != nil && v.Sig != "" && isKnown(v.Property, v.Sig) != nil {
		st.mu.Lock()
		st.Excluded++
		st.mu.Unlock()
		return nil
	}
	return v
}

func isPanicResult(code uint32, codespace string) bool { return code == 111222 }

// runInput executes one hostile input and reports a panic as a violation.
func runInput(c *chain.Chain, in c20input, idx int) *Viol {
	bz, _ := hex.DecodeString(in.Hex)
	desc := fmt.Sprintf("%s %s %s", in.Kind, in.TypeURL, in.Note)
	switch in.Kind {
	case "msg-l1", "msg-l2":
		if in.Kind == "msg-l2" {
			raw := wrapTx(in.TypeURL, bz, idx)
			res := c.DeliverBlock([][]byte{raw})
			if res[0].Panicked() {
				return viol("C20", idx, "transaction handler panicked: "+desc, "normal result or error", res[0].Log)
			}
			return nil
		}
		pm, err := c.Registry.Resolve(in.TypeURL)
		if err != nil {
			return nil
		}
		if err := proto.Unmarshal(bz, pm); err != nil {
			return nil // does not decode from the wire: outside the property's domain
		}
		msg, ok := pm.(sdk.Msg)
		if !ok {
			return nil
		}
		h := c.App.MsgServiceRouter().Handler(msg)
		if h == nil {
			return nil
		}
		ctx := c.Branch(fmt.Sprintf("c20#%d", idx))
		if p := safely(func() { _, _ = h(ctx, msg) }); p != nil {
			return viol("C20", idx, "message handler panicked: "+desc, "normal result or error", p)
		}
	case "query":
		r, err := c.App.Query(context.Background(), &abci.RequestQuery{Path: "/circle.cctp.v1.Query/" + in.TypeURL, Data: bz})
		if err == nil && r != nil && isPanicResult(r.Code, r.Codespace) {
			v := viol("C20", idx, "query handler panicked: "+desc, "normal result or error", r.Log)
			if isPaginateReverseKey(bz) && strings.Contains(r.Log, "prefixIterator invalid, cannot call Key()") {
				v.Sig = sigPaginateReverse
			}
			return v
		}
	case "query-nil":
		ctx := c.Branch("c20q")
		m := reflect.ValueOf(*c.Keeper).MethodByName(in.TypeURL)
		if !m.IsValid() {
			return nil
		}
		if p := safely(func() {
			m.Call([]reflect.Value{reflect.ValueOf(context.Context(ctx)), reflect.Zero(m.Type().In(1))})
		}); p != nil {
			return viol("C20", idx, "query handler panicked on a nil request: "+desc, "error", p)
		}
	case "decode-msg":
		if p := safely(func() {
			if m, err := new(types.Message).Parse(bz); err == nil {
				_, _ = m.Bytes()
			}
		}); p != nil {
			return viol("C20", idx, "message decoder panicked", "value or error", p)
		}
	case "decode-burn":
		if p := safely(func() {
			if m, err := new(types.BurnMessage).Parse(bz); err == nil {
				_, _ = m.Bytes()
			}
		}); p != nil {
			return viol("C20", idx, "burn-message decoder panicked", "value or error", p)
		}
	case "cli":
		if p := safely(func() { _, _ = cli.ParseAddress(in.Str) }); p != nil {
			return viol("C20", idx, fmt.Sprintf("CLI address parser panicked on %q", in.Str), "value or error", p)
		}
	}
	return nil
}

// wrapTx builds raw transaction bytes around one Any-wrapped message.
func wrapTx(typeURL string, value []byte, seq int) []byte {
	body := &txtypes.TxBody{Messages: []*codectypes.Any{{TypeUrl: typeURL, Value: value}}, Memo: fmt.Sprintf("c20#%d", seq)}
	bb, _ := proto.Marshal(body)
	ab, _ := proto.Marshal(&txtypes.AuthInfo{Fee: &txtypes.Fee{}})
	raw, _ := proto.Marshal(&txtypes.TxRaw{BodyBytes: bb, AuthInfoBytes: ab})
	return raw
}

// ---- wire-level mutation ---------------------------------------------------------------------------------

type wireField struct {
	Num protowire.Number
	Typ protowire.Type
	Raw []byte // complete encoding of tag+value
	Val []byte // payload for bytes fields
}

func parseFields(b []byte) []wireField {
	var out []wireField
	for len(b) > 0 {
		num, typ, n := protowire.ConsumeTag(b)
		if n < 0 {
			return out
		}
		m := protowire.ConsumeFieldValue(num, typ, b[n:])
		if m < 0 {
			return out
		}
		f := wireField{Num: num, Typ: typ, Raw: append([]byte{}, b[:n+m]...)}
		if typ == protowire.BytesType {
			v, _ := protowire.ConsumeBytes(b[n:])
			f.Val = append([]byte{}, v...)
		}
		out = append(out, f)
		b = b[n+m:]
	}
	return out
}

func bytesField(num protowire.Number, v []byte) wireField {
	raw := protowire.AppendTag(nil, num, protowire.BytesType)
	raw = protowire.AppendBytes(raw, v)
	return wireField{Num: num, Typ: protowire.BytesType, Raw: raw, Val: v}
}

func varintField(num protowire.Number, v uint64) wireField {
	raw := protowire.AppendTag(nil, num, protowire.VarintType)
	raw = protowire.AppendVarint(raw, v)
	return wireField{Num: num, Typ: protowire.VarintType, Raw: raw}
}

func joinFields(fs []wireField) []byte {
	var out []byte
	for _, f := range fs {
		out = append(out, f.Raw...)
	}
	return out
}

var hostileStrings = []string{"", "x", "noble1", "NOBLE1QQQQ", "nöble1ü", "uuſdc", "uusdK", "\x00\xff\xfe", strings.Repeat("a", 300), "0", "0x", "-1", "1e9", " 1", "0x" + strings.Repeat("f", 131)}

// mutate applies one hostile change to the wire fields of a valid message.
func mutate(t *rapid.T, fs []wireField, maxField int, label string) ([]wireField, string) {
	k := rapid.IntRange(0, 8).Draw(t, label+"/kind")
	if len(fs) == 0 {
		k = 8
	}
	pick := func() int { return rapid.IntRange(0, len(fs)-1).Draw(t, label+"/field") }
	switch k {
	case 0: // drop a field (absent on the wire)
		i := pick()
		return append(append([]wireField{}, fs[:i]...), fs[i+1:]...), fmt.Sprintf("drop#%d", fs[i].Num)
	case 1: // duplicate a field
		i := pick()
		return append(append([]wireField{}, fs...), fs[i]), fmt.Sprintf("dup#%d", fs[i].Num)
	case 2, 3: // hostile bytes/string content
		i := pick()
		if fs[i].Typ != protowire.BytesType {
			out := append([]wireField{}, fs...)
			out[i] = varintField(fs[i].Num, rapid.SampledFrom([]uint64{0, 1, 1<<32 - 1, 1 << 32, 1<<63 - 1, 1<<64 - 1}).Draw(t, label+"/varint"))
			return out, fmt.Sprintf("varint#%d", fs[i].Num)
		}
		var v []byte
		switch rapid.IntRange(0, 6).Draw(t, label+"/content") {
		case 0:
			v = nil
		case 1:
			v = fs[i].Val[:len(fs[i].Val)/2]
		case 2:
			v = append(append([]byte{}, fs[i].Val...), fs[i].Val...)
		case 3:
			v = make([]byte, rapid.SampledFrom([]int{1, 31, 32, 33, 64, 65, 115, 116, 131, 132, 133, 10000}).Draw(t, label+"/len"))
		case 4:
			v = []byte(rapid.SampledFrom(hostileStrings).Draw(t, label+"/str"))
		default:
			v = rapid.SliceOfN(rapid.Byte(), 0, 200).Draw(t, label+"/rnd")
		}
		out := append([]wireField{}, fs...)
		out[i] = bytesField(fs[i].Num, v)
		return out, fmt.Sprintf("content#%d", fs[i].Num)
	case 4: // retype: bytes <-> varint
		i := pick()
		out := append([]wireField{}, fs...)
		if fs[i].Typ == protowire.BytesType {
			out[i] = varintField(fs[i].Num, 7)
		} else {
			out[i] = bytesField(fs[i].Num, []byte{1, 2, 3})
		}
		return out, fmt.Sprintf("retype#%d", fs[i].Num)
	case 5: // truncate the encoding of a field
		i := pick()
		out := append([]wireField{}, fs...)
		if len(out[i].Raw) > 1 {
			out[i].Raw = out[i].Raw[:len(out[i].Raw)-1]
		}
		return out, fmt.Sprintf("trunc#%d", fs[i].Num)
	case 6: // reorder
		i := pick()
		out := append([]wireField{fs[i]}, append(append([]wireField{}, fs[:i]...), fs[i+1:]...)...)
		return out, "reorder"
	case 7: // unknown extra field
		return append(append([]wireField{}, fs...), bytesField(protowire.Number(maxField+3), []byte("extra"))), "unknown-field"
	default: // everything absent
		return nil, "empty"
	}
}

// validMsgs draws a well-formed message of one of the 25 types for the live state.
func validMsg(g *sim.G) sdk.Msg {
	switch k := g.Int("msgkind", 0, 11); {
	case k <= 4:
		op := g.AdminOp("admin", 80, nil)
		return op.SdkMsgs()[0]
	case k == 5:
		return g.SendOp("send").SdkMsgs()[0]
	case k <= 7:
		return g.DepositOp("dep", 90).SdkMsgs()[0]
	case k == 8:
		return g.RecvOp("recv", 20).SdkMsgs()[0]
	case k == 9:
		return g.ValidReplaceOp("rep", sim.Acct(g.Acct("by"))).SdkMsgs()[0]
	case k == 10:
		return g.ValidRepDepOp("repdep", sim.Acct(g.Acct("by"))).SdkMsgs()[0]
	default:
		return g.ReplaceOp("rep2", 50).SdkMsgs()[0]
	}
}

var queryNames = []string{"Roles", "Attester", "Attesters", "PerMessageBurnLimit", "PerMessageBurnLimits", "BurningAndMintingPaused", "SendingAndReceivingMessagesPaused",
	"MaxMessageBodySize", "NextAvailableNonce", "SignatureThreshold", "TokenPair", "TokenPairs", "UsedNonce", "UsedNonces", "RemoteTokenMessenger", "RemoteTokenMessengers",
	"BurnMessageVersion", "LocalMessageVersion", "LocalDomain"}

func genQueryInput(g *sim.G) c20input {
	qs := allQueries(g.W)
	qc := sim.Pick(g, "query", qs)
	if g.Pct("nilreq", 10) {
		return c20input{Kind: "query-nil", TypeURL: qc.Method}
	}
	// hostile pagination for list queries
	req := qc.Req
	v := reflect.ValueOf(req).Elem()
	if f := v.FieldByName("Pagination"); f.IsValid() {
		pr := &query.PageRequest{}
		switch g.Int("page", 0, 6) {
		case 0:
			pr = nil
		case 1:
			pr.Key, pr.Offset = []byte{1, 2}, 3
		case 2:
			pr.Limit = 1<<64 - 1
		case 3:
			pr.Offset, pr.CountTotal = 1<<64-1, true
		case 4:
			pr.Reverse, pr.Key = true, g.Bytes("pkey", g.Int("pkl", 0, 40))
		case 5:
			pr.Key = []byte("Attester/value/zzz")
		default:
			pr.Limit, pr.Reverse, pr.CountTotal = 0, true, true
		}
		f.Set(reflect.ValueOf(pr))
	}
	bz, _ := proto.Marshal(req)
	fs := parseFields(bz)
	note := "valid"
	for i, n := 0, g.Int("nmut", 0, 2); i < n; i++ {
		var nn string
		fs, nn = mutate(g.T, fs, 4, fmt.Sprintf("qmut%d", i))
		note += "," + nn
	}
	return c20input{Kind: "query", TypeURL: qc.Method, Hex: hex.EncodeToString(joinFields(fs)), Note: note}
}

func genMsgInput(g *sim.G) c20input {
	msg := validMsg(g)
	bz, err := proto.Marshal(msg)
	if err != nil {
		panic(err)
	}
	fs := parseFields(bz)
	note := "valid"
	n := g.Int("nmut", 0, 2)
	for i := 0; i < n; i++ {
		var nn string
		fs, nn = mutate(g.T, fs, 8, fmt.Sprintf("mut%d", i))
		note += "," + nn
	}
	kind := "msg-l2"
	if g.Pct("l1", 40) {
		kind = "msg-l1"
	}
	return c20input{Kind: kind, TypeURL: sdk.MsgTypeURL(msg), Hex: hex.EncodeToString(joinFields(fs)), Note: note}
}

func genOtherInput(g *sim.G) c20input {
	switch g.Int("other", 0, 3) {
	case 0:
		return c20input{Kind: "decode-msg", Hex: hex.EncodeToString(g.Bytes("bz", sim.Pick(g, "len", []int{0, 1, 115, 116, 117, 248, 300})))}
	case 1:
		return c20input{Kind: "decode-burn", Hex: hex.EncodeToString(g.Bytes("bz", sim.Pick(g, "len", []int{0, 1, 131, 132, 133, 264})))}
	default:
		var s string
		switch g.Int("cli", 0, 6) {
		case 0:
			s = sim.Pick(g, "clis", []string{"", "0", "x", "0x", "0X", "1", "00", "0x0", "zz", "Il0O", "0x" + strings.Repeat("ab", 33), strings.Repeat("1", 60), "ü"})
		case 1:
			s = "0x" + hex.EncodeToString(g.Bytes("hexaddr", g.Int("hl", 0, 40)))
		case 2:
			s = rapid.StringN(0, 3, 8).Draw(g.T, "short")
		default:
			s = rapid.String().Draw(g.T, "any")
		}
		return c20input{Kind: "cli", Str: s}
	}
}

// hostileGenesis draws a genesis with hostile scalars, empty roles and odd-shaped registry
// entries that validation and initialisation accept.
func hostileGenesis(t *rapid.T) json.RawMessage {
	for i := 0; ; i++ {
		g := genGenesisState(t)
		dedupGenesis(g)
		if g.BurningAndMintingPaused == nil {
			g.BurningAndMintingPaused = &types.BurningAndMintingPaused{}
		}
		if g.SendingAndReceivingMessagesPaused == nil {
			g.SendingAndReceivingMessagesPaused = &types.SendingAndReceivingMessagesPaused{}
		}
		if g.SignatureThreshold != nil && g.SignatureThreshold.Amount == 0 {
			g.SignatureThreshold.Amount = rapid.SampledFrom([]uint32{1, 2, 66076420, 66076420 * 2, 1 << 31, 1<<32 - 1, 132152839}).Draw(t, "hugethr")
		}
		raw := json.RawMessage(chain.Codec().MustMarshalJSON(g))
		if chain.ValidateGenesis(raw) == nil || i > 3 {
			return raw
		}
	}
}

func c20world(c *c20case) (*sim.World, error) {
	if c.GenesisJSON != nil {
		ch, err := chain.New(chain.Genesis{Cctp: c.GenesisJSON, Ledger: chain.LedgerGenesis{MintingDenom: "uusdc", ModuleIsMinter: true, Allowance: "1000000",
			Balances: []chain.LedgerBal{{Addr: sim.Acct(0), Denom: "uusdc", Amount: "1000000"}}}})
		if err != nil {
			return nil, err
		}
		// a model is only needed by the generators; build a loose one from the export
		gs := &sim.GenSpec{Roles: [4]int{0, 1, 2, 3}, Threshold: 1, MaxBody: 8000, Ledger: chain.LedgerGenesis{MintingDenom: "uusdc", ModuleIsMinter: true, Allowance: "1000000"}}
		w := &sim.World{Gen: gs, Chain: ch, Model: sim.NewModel(gs)}
		if ex, err := ch.Export(); err == nil {
			for _, a := range ex.AttesterList {
				w.Model.Atts[a.Attester] = true
			}
			if ex.SignatureThreshold != nil {
				w.Model.Thr = ex.SignatureThreshold.Amount
			}
			w.Model.Roles = [4]string{ex.Owner, ex.AttesterManager, ex.Pauser, ex.TokenController}
		}
		return w, nil
	}
	w, err := sim.NewWorld(c.Gen)
	if err != nil {
		return nil, err
	}
	for _, op := range c.Setup {
		if err := op.Resolve(); err != nil {
			return nil, err
		}
		w.Exec(op)
	}
	return w, nil
}

func c20replay(c *c20case) *Viol {
	w, err := c20world(c)
	if err != nil {
		return nil
	}
	for i, in := range c.Inputs {
		if v := runInput(w.Chain, in, i); v != nil {
			if v.Sig != "" && isKnown(v.Property, v.Sig) != nil {
				continue
			}
			return v
		}
	}
	return nil
}

func RunC20(t *testing.T) {
	st := newStats("C20")
	defer st.Write()
	// directed prelude: one input per class the property text names
	// directed case of the listed known finding: reported while the defect is there
	if k := isKnown("C20", sigPaginateReverse); k != nil {
		w, err := sim.NewWorld(enumGenesis([4]int{0, 1, 2, 3}))
		if err != nil {
			t.Fatalf("HARNESS %v", err)
		}
		req, _ := proto.Marshal(&types.QueryAllTokenPairsRequest{Pagination: &query.PageRequest{Key: []byte{0x22}, Reverse: true}})
		if v := runInput(w.Chain, c20input{Kind: "query", TypeURL: "TokenPairs", Hex: hex.EncodeToString(req)}, 0); v != nil && v.Sig == sigPaginateReverse {
			fmt.Printf("KNOWN-FINDING: property=C20 %s\n", k.Text)
		}
	}
	// every position 0..40 of a base58 string x a set of multi-byte / invalid characters
	sweep := 0
	for _, ch := range []string{"é", "ÿ", "\u0080", "\u0100", "\u07ff", "\u0800", "\ufffd", "\U00010123", "\xff", "\xc3", "\xe2\x82",
		" ", "\t", "\u00a0", "\u1680", "\u2003", "\u2028", "\u205f", "\u3000", "\ufeff", "\u200b"} {
		for pos := 0; pos <= 40; pos++ {
			for _, base := range []string{"111111111111111111111111111111111111111111", "2NEpo7TZRRrLZSi2U2NEpo7TZRRrLZSi2U2NEpo7TZ"} {
				s := base[:pos] + ch + base[pos:]
				if v := runInput(nil, c20input{Kind: "cli", Str: s}, 0); v != nil {
					saveFail("C20", "c20", &c20case{Gen: enumGenesis([4]int{0, 1, 2, 3}), Inputs: []c20input{{Kind: "cli", Str: s}}}, v)
					t.Fatalf("VIOLATION %s", v)
				}
				sweep++
			}
		}
	}
	st.Class("cli-position-sweep", sweep)
	st.mu.Lock()
	st.Evaluations += sweep
	st.mu.Unlock()
	// every variable-length field of every message and query type at every length 0..72
	ns, sv, sc := c20LengthSweep()
	if sv != nil {
		if sc != nil {
			saveFail("C20", "c20", sc, sv)
		}
		t.Fatalf("VIOLATION %s", sv)
	}
	st.Class("length-sweep", ns)
	st.mu.Lock()
	st.Evaluations += ns
	st.mu.Unlock()
	pre := c20prelude()
	for i, c := range pre {
		if v := c20replay(c); v != nil {
			saveFail("C20", "c20", c, v)
			t.Fatalf("VIOLATION prelude %d: %s", i, v)
		}
		cc := c
		st.Case(fmt.Sprintf("prelude%d", i), func() any { return cc }, "prelude")
	}
	rapid.Check(t, func(rt *rapid.T) {
		c := &c20case{}
		var w *sim.World
		var err error
		if rapid.IntRange(0, 2).Draw(rt, "hostilegen") == 0 {
			c.GenesisJSON = hostileGenesis(rt)
			w, err = c20world(c)
			if err != nil {
				// initialisation refused this genesis: nothing reachable from it
				st.Case("", nil, "genesis-refused")
				return
			}
		} else {
			c.Gen = sim.DrawGenesis(rt, sim.GenOpts{UsedInGen: true})
			w, err = sim.NewWorld(c.Gen)
			if err != nil {
				rt.Fatalf("HARNESS %v", err)
			}
			g := &sim.G{T: rt, W: w}
			for i, n := 0, rapid.IntRange(0, 6).Draw(rt, "nsetup"); i < n; i++ {
				op := Mix{Send: 2, Dep: 2, Recv: 2, Admin: 6, DepValid: 90, RecvBroken: 10, AdminHolder: 90}.next(g)
				c.Setup = append(c.Setup, op)
				w.Exec(op)
			}
		}
		g := &sim.G{T: rt, W: w}
		n := rapid.IntRange(1, 12).Draw(rt, "ninputs")
		var keys []string
		cls := map[string]bool{}
		for i := 0; i < n; i++ {
			var in c20input
			switch k := g.Int("inkind", 0, 9); {
			case k <= 5:
				in = genMsgInput(g)
			case k <= 7:
				in = genQueryInput(g)
			default:
				in = genOtherInput(g)
			}
			c.Inputs = append(c.Inputs, in)
			if v := knownOrViol(runInput(w.Chain, in, i), st); v != nil {
				for _, op := range c.Setup {
					op.Finalize()
				}
				saveFail("C20", "c20", c, v)
				rt.Fatalf("VIOLATION %s", v)
			}
			cls[in.Kind] = true
			if strings.Count(in.Note, ",") <= 2 && (in.Kind == "msg-l1" || in.Kind == "msg-l2" || in.Kind == "query") {
				keys = append(keys, hashKey(in.Kind+in.TypeURL+in.Hex))
				cls["type:"+in.TypeURL] = true
			}
		}
		var cl []string
		for k := range cls {
			cl = append(cl, k)
		}
		if c.GenesisJSON != nil {
			cl = append(cl, "hostile-genesis")
		}
		cc := c
		st.Case(strings.Join(keys, "\x1f"), func() any {
			for _, op := range cc.Setup {
				op.Finalize()
			}
			return cc
		}, cl...)
	})
	if !t.Failed() {
		req := []string{"hostile-genesis", "msg-l1", "msg-l2", "query", "query-nil", "decode-msg", "decode-burn", "cli"}
		for _, m := range allMsgURLs() {
			req = append(req, "type:"+m)
		}
		for _, q := range queryNames {
			req = append(req, "type:"+q)
		}
		st.Healthy(t, req...)
	}
}

func allMsgURLs() []string {
	var out []string
	for _, m := range []sdk.Msg{&types.MsgUpdateOwner{}, &types.MsgAcceptOwner{}, &types.MsgUpdateAttesterManager{}, &types.MsgUpdatePauser{}, &types.MsgUpdateTokenController{},
		&types.MsgUpdateMaxMessageBodySize{}, &types.MsgAddRemoteTokenMessenger{}, &types.MsgRemoveRemoteTokenMessenger{}, &types.MsgEnableAttester{}, &types.MsgDisableAttester{},
		&types.MsgUpdateSignatureThreshold{}, &types.MsgPauseBurningAndMinting{}, &types.MsgUnpauseBurningAndMinting{}, &types.MsgPauseSendingAndReceivingMessages{},
		&types.MsgUnpauseSendingAndReceivingMessages{}, &types.MsgLinkTokenPair{}, &types.MsgUnlinkTokenPair{}, &types.MsgSetMaxBurnAmountPerMessage{}, &types.MsgSendMessage{},
		&types.MsgSendMessageWithCaller{}, &types.MsgDepositForBurn{}, &types.MsgDepositForBurnWithCaller{}, &types.MsgReceiveMessage{}, &types.MsgReplaceMessage{}, &types.MsgReplaceDepositForBurn{}} {
		out = append(out, sdk.MsgTypeURL(m))
	}
	return out
}

// c20prelude: the hostile inputs the property names, hand-built.
func c20prelude() []*c20case {
	gs := func() *sim.GenSpec {
		g := enumGenesis([4]int{0, 1, 2, 3})
		g.Ledger.Balances = []chain.LedgerBal{{Addr: sim.Acct(0), Denom: "uusdc", Amount: "1000"}}
		return g
	}
	mr := sim.Pad32([]byte{9})
	wire := func(m proto.Message) []wireField { bz, _ := proto.Marshal(m); return parseFields(bz) }
	drop := func(fs []wireField, num protowire.Number) string {
		var out []wireField
		for _, f := range fs {
			if f.Num != num {
				out = append(out, f)
			}
		}
		return hex.EncodeToString(joinFields(out))
	}
	dep := &types.MsgDepositForBurn{From: sim.Acct(0), Amount: sim.Int(sim.Big("5")), DestinationDomain: 0, MintRecipient: mr, BurnToken: "uusdc"}
	depc := &types.MsgDepositForBurnWithCaller{From: sim.Acct(0), Amount: sim.Int(sim.Big("5")), DestinationDomain: 0, MintRecipient: mr, BurnToken: "uusdc", DestinationCaller: mr}
	fold := &types.MsgDepositForBurn{From: sim.Acct(0), Amount: sim.Int(sim.Big("5")), DestinationDomain: 0, MintRecipient: mr, BurnToken: "uuſdc"}
	foldbz, _ := proto.Marshal(fold)
	lim := &types.MsgSetMaxBurnAmountPerMessage{From: sim.Acct(3), LocalToken: "uusdc", Amount: sim.Int(sim.Big("5"))}
	var out []*c20case
	out = append(out, &c20case{Gen: gs(), Inputs: []c20input{
		{Kind: "msg-l2", TypeURL: sdk.MsgTypeURL(dep), Hex: drop(wire(dep), 2), Note: "absent amount"},
		{Kind: "msg-l1", TypeURL: sdk.MsgTypeURL(dep), Hex: drop(wire(dep), 2), Note: "absent amount"},
		{Kind: "msg-l2", TypeURL: sdk.MsgTypeURL(depc), Hex: drop(wire(depc), 2), Note: "absent amount"},
		{Kind: "msg-l2", TypeURL: sdk.MsgTypeURL(fold), Hex: hex.EncodeToString(foldbz), Note: "burn token that only case-folds to the minting denom"},
		{Kind: "msg-l1", TypeURL: sdk.MsgTypeURL(fold), Hex: hex.EncodeToString(foldbz), Note: "burn token that only case-folds to the minting denom"},
		{Kind: "msg-l2", TypeURL: sdk.MsgTypeURL(lim), Hex: drop(wire(lim), 3), Note: "absent amount"},
		{Kind: "msg-l1", TypeURL: sdk.MsgTypeURL(dep), Hex: drop(wire(dep), 1), Note: "absent from"},
		{Kind: "cli", Str: ""}, {Kind: "cli", Str: "0"}, {Kind: "cli", Str: "0x"}, {Kind: "cli", Str: "0x1"}, {Kind: "cli", Str: "zz"},
		{Kind: "decode-msg", Hex: ""}, {Kind: "decode-burn", Hex: ""},
		{Kind: "query-nil", TypeURL: "Roles"}, {Kind: "query-nil", TypeURL: "TokenPairs"},
	}})
	// extreme burn limits set by the token controller (the handler takes any integer), then ordinary deposits: whatever
	// arithmetic relates amount and limit must not leave the 256 bits the SDK's integers allow
	for _, lv := range []string{"-" + sim.Max256.String(), "-" + sim.Two255.String(), sim.Max256.String(), "-1"} {
		ext := &types.MsgSetMaxBurnAmountPerMessage{From: sim.Acct(3), LocalToken: "uusdc", Amount: sim.Int(sim.Big(lv))}
		ebz, _ := proto.Marshal(ext)
		one := &types.MsgDepositForBurn{From: sim.Acct(0), Amount: sim.Int(sim.Big("1")), DestinationDomain: 0, MintRecipient: mr, BurnToken: "uusdc"}
		obz, _ := proto.Marshal(one)
		big1 := &types.MsgDepositForBurnWithCaller{From: sim.Acct(0), Amount: sim.Int(sim.Max256), DestinationDomain: 0, MintRecipient: mr, BurnToken: "uusdc", DestinationCaller: mr}
		bbz, _ := proto.Marshal(big1)
		out = append(out, &c20case{Gen: gs(), Inputs: []c20input{
			{Kind: "msg-l2", TypeURL: sdk.MsgTypeURL(ext), Hex: hex.EncodeToString(ebz), Note: "burn limit " + lv},
			{Kind: "msg-l2", TypeURL: sdk.MsgTypeURL(one), Hex: hex.EncodeToString(obz), Note: "deposit of 1 under limit " + lv},
			{Kind: "msg-l1", TypeURL: sdk.MsgTypeURL(big1), Hex: hex.EncodeToString(bbz), Note: "deposit of 2^256-1 under limit " + lv},
			{Kind: "msg-l2", TypeURL: sdk.MsgTypeURL(big1), Hex: hex.EncodeToString(bbz), Note: "deposit of 2^256-1 under limit " + lv},
		}})
	}
	// an absent amount where an entry for the same (case-folded) key already exists
	{
		set5 := &types.MsgSetMaxBurnAmountPerMessage{From: sim.Acct(3), LocalToken: "uusdc", Amount: sim.Int(sim.Big("5"))}
		sbz, _ := proto.Marshal(set5)
		up := &types.MsgSetMaxBurnAmountPerMessage{From: sim.Acct(3), LocalToken: "UUSDC", Amount: sim.Int(sim.Big("5"))}
		out = append(out, &c20case{Gen: gs(), Inputs: []c20input{
			{Kind: "msg-l2", TypeURL: sdk.MsgTypeURL(set5), Hex: hex.EncodeToString(sbz), Note: "burn limit 5"},
			{Kind: "msg-l2", TypeURL: sdk.MsgTypeURL(lim), Hex: drop(wire(lim), 3), Note: "absent amount over an existing limit"},
			{Kind: "msg-l1", TypeURL: sdk.MsgTypeURL(lim), Hex: drop(wire(lim), 3), Note: "absent amount over an existing limit"},
			{Kind: "msg-l2", TypeURL: sdk.MsgTypeURL(up), Hex: drop(wire(up), 3), Note: "absent amount, upper-case token, over an existing limit"},
		}})
	}
	// a genesis whose threshold makes 65*threshold wrap around 2^32: a 4-byte attestation then matches the length
	g := types.DefaultGenesis()
	g.Owner, g.AttesterManager, g.Pauser, g.TokenController = sim.Acct(0), sim.Acct(1), sim.Acct(2), sim.Acct(3)
	g.AttesterList = []types.Attester{{Attester: "04aa"}}
	g.SignatureThreshold = &types.SignatureThreshold{Amount: 66076420}
	in := make([]byte, 116)
	in[11] = 4
	recv := &types.MsgReceiveMessage{From: sim.Acct(0), Message: in, Attestation: []byte{1, 2, 3, 4}}
	rbz, _ := proto.Marshal(recv)
	rep := &types.MsgReplaceMessage{From: sim.Acct(0), OriginalMessage: in, OriginalAttestation: []byte{1, 2, 3, 4}, NewDestinationCaller: make([]byte, 32)}
	pbz, _ := proto.Marshal(rep)
	out = append(out, &c20case{GenesisJSON: json.RawMessage(chain.Codec().MustMarshalJSON(g)), Inputs: []c20input{
		{Kind: "msg-l2", TypeURL: sdk.MsgTypeURL(recv), Hex: hex.EncodeToString(rbz), Note: "65*threshold wraps around 2^32"},
		{Kind: "msg-l2", TypeURL: sdk.MsgTypeURL(rep), Hex: hex.EncodeToString(pbz), Note: "65*threshold wraps around 2^32"},
	}})
	return out
}

func init() {
	replayers["c20"] = func(raw []byte) *Viol {
		var c c20case
		mustJSON(raw, &c)
		return c20replay(&c)
	}
}

var _ = keeper.VerifyAttestationSignatures

// ---- native fuzz targets (thorough) ---------------------------------------------------------------------

var fuzzWorld *sim.World

func fuzzChain() *chain.Chain {
	if fuzzWorld == nil {
		g := enumGenesis([4]int{0, 1, 2, 3})
		g.Ledger.Balances = []chain.LedgerBal{{Addr: sim.Acct(0), Denom: "uusdc", Amount: "1000000"}}
		w, err := sim.NewWorld(g)
		if err != nil {
			panic(err)
		}
		fuzzWorld = w
	}
	return fuzzWorld.Chain
}

func fuzzWireMsg(f *testing.F) {
	urls := allMsgURLs()
	for _, c := range c20prelude() {
		for _, in := range c.Inputs {
			if strings.HasPrefix(in.Kind, "msg") && c.Gen != nil {
				b, _ := hex.DecodeString(in.Hex)
				for i, u := range urls {
					if u == in.TypeURL {
						f.Add(uint8(i), b)
					}
				}
			}
		}
	}
	f.Fuzz(func(t *testing.T, which uint8, bz []byte) {
		c := fuzzChain()
		in := c20input{Kind: "msg-l1", TypeURL: urls[int(which)%len(urls)], Hex: hex.EncodeToString(bz)}
		if v := runInput(c, in, 0); v != nil {
			t.Fatalf("VIOLATION %s", v)
		}
	})
}

func fuzzQuery(f *testing.F) {
	f.Add(uint8(0), []byte{})
	f.Add(uint8(2), []byte{0x0a, 0x02, 0x0a, 0x00})
	f.Fuzz(func(t *testing.T, which uint8, bz []byte) {
		c := fuzzChain()
		in := c20input{Kind: "query", TypeURL: queryNames[int(which)%len(queryNames)], Hex: hex.EncodeToString(bz)}
		if v := runInput(c, in, 0); v != nil {
			t.Fatalf("VIOLATION %s", v)
		}
	})
}

func fuzzCLIAddress(f *testing.F) {
	for _, s := range []string{"", "0", "0x", "0x12", "zz", "1111"} {
		f.Add(s)
	}
	f.Fuzz(func(t *testing.T, s string) {
		if v := runInput(nil, c20input{Kind: "cli", Str: s}, 0); v != nil {
			t.Fatalf("VIOLATION %s", v)
		}
	})
}
