package props

import (
	"bytes"
	"fmt"
	"math/big"
	"strings"

	"github.com/circlefin/noble-cctp/x/cctp/types"
	sdk "github.com/cosmos/cosmos-sdk/types"
	"github.com/cosmos/cosmos-sdk/types/query"
	"github.com/cosmos/gogoproto/proto"
	"pgregory.net/rapid"

	"verif/harness/attest"
	"verif/harness/chain"
	"verif/harness/refcodec"
	"verif/harness/sim"
)

var _ = attest.Keccak

// Mix is a weighted choice among op families for a history generator.
type Mix struct {
	Send, Dep, Recv, Replay, Replace, RepDep, Admin, Ledger, Multi int
	DepValid, RecvBroken, ReplaceValid, AdminHolder, FaultPct   int
	Rollback                                                    int // percent of steps that start a rollback probe
	AttProbe                                                    int // percent of steps that start an attester-change probe
	MsgrProbe                                                   int // percent of steps that re-register a messenger and replace an earlier deposit to its domain
	Restart                                                     int // percent of steps that are a genesis round trip
	AdminTypes                                                  []string
}

// replayOp re-submits an earlier successful receive with one aspect varied.
func replayOp(g *sim.G, label string) *sim.Op {
	var cands, failedOnes []*sim.Step
	for _, s := range g.W.Steps {
		if s.Op.Kind == "tx" && len(s.Msgs) == 1 {
			if _, ok := s.Msgs[0].(*types.MsgReceiveMessage); ok {
				if s.OK() {
					cands = append(cands, s)
				} else if s.Exp != nil && s.Exp.Conds["P2-attestation"] {
					failedOnes = append(failedOnes, s)
				}
			}
		}
	}
	// the very same bytes of a receive that was validly attested but failed for another reason
	// (and was rolled back), after whatever happened since
	if len(failedOnes) > 0 && g.Pct(label+"/retryfailed", 35) {
		s := sim.Pick(g, label+"/failed", failedOnes)
		orig := s.Msgs[0].(*types.MsgReceiveMessage)
		op := sim.TxOp("retry", &types.MsgReceiveMessage{From: orig.From, Message: append([]byte{}, orig.Message...), Attestation: append([]byte{}, orig.Attestation...)})
		return op.WithMeta("vary", "retry-failed").WithMeta("of", fmt.Sprint(s.Idx))
	}
	if len(cands) == 0 {
		return g.RecvOp(label+"/fresh", 0)
	}
	s := sim.Pick(g, label+"/of", cands)
	orig := s.Msgs[0].(*types.MsgReceiveMessage)
	by := orig.From
	msg := append([]byte{}, orig.Message...)
	dm, _ := refcodec.DecodeMessage(msg)
	vary := sim.Pick(g, label+"/vary", []string{"same", "body", "recipient", "caller", "encoding", "submitter", "sender"})
	switch vary {
	case "body":
		if bytes.Equal(dm.Recip, sim.Pad32(sim.ModuleAddrBytes())) {
			if b, err := refcodec.DecodeBurn(dm.Body); err == nil {
				b.Amount = new(big.Int).Add(b.Amount, big.NewInt(1))
				if b.Amount.BitLen() > 256 {
					b.Amount = big.NewInt(1)
				}
				dm.Body, _ = refcodec.EncodeBurn(b)
			}
		} else {
			dm.Body = append(dm.Body, 0x42)
		}
	case "recipient":
		if bytes.Equal(dm.Recip, sim.Pad32(sim.ModuleAddrBytes())) {
			dm.Recip = g.NonZero32(label+"/rc", by)
			dm.Body = g.Body(label + "/nb")
		} else {
			dm.Recip[31] ^= 1
		}
	case "caller":
		if sim.IsZero(dm.Caller) {
			dm.Caller = sim.Pad32(sdk.MustAccAddressFromBech32(by))
		} else {
			dm.Caller = make([]byte, 32)
		}
	case "submitter":
		if sim.IsZero(dm.Caller) {
			by = sim.Acct(g.Acct(label + "/by"))
		}
	case "sender":
		if !bytes.Equal(dm.Recip, sim.Pad32(sim.ModuleAddrBytes())) {
			dm.Sender[31] ^= 1
		}
	}
	msg, _ = refcodec.EncodeMessage(dm)
	var att []byte
	if vary == "encoding" || vary == "same" && g.Bool(label+"/reenc") {
		ks := g.W.EnabledKeys()
		if t := int(g.W.Model.Thr); len(ks) >= t && t > 0 {
			att = attest.Attest(msg, ks[:t], attest.SigStyle{Legacy: g.Bool(label + "/legacy"), Twin: g.Bool(label + "/twin")})
		}
	}
	if att == nil {
		att = g.HonestAttestation(label+"/att", msg)
	}
	if att == nil {
		att = append([]byte{}, orig.Attestation...)
	}
	op := sim.TxOp("replay", &types.MsgReceiveMessage{From: by, Message: msg, Attestation: att})
	return op.WithMeta("vary", vary).WithMeta("of", fmt.Sprint(s.Idx))
}

// rollbackProbe returns a transaction whose first message changes a registry/flag and whose second
// message fails (so the SDK discards both), followed by the same change on its own, which must then
// behave exactly as if it had never been attempted.
func rollbackProbe(g *sim.G, label string) []*sim.Op {
	return rollbackProbeOf(g, label, []string{"AddRemoteTokenMessenger", "RemoveRemoteTokenMessenger", "LinkTokenPair", "UnlinkTokenPair", "EnableAttester", "DisableAttester",
		"SetMaxBurnAmountPerMessage", "UpdateSignatureThreshold", "UpdateMaxMessageBodySize", "PauseBurningAndMinting", "UnpauseBurningAndMinting",
		"PauseSendingAndReceivingMessages", "UnpauseSendingAndReceivingMessages", "UpdatePauser", "UpdateAttesterManager", "UpdateTokenController", "UpdateOwner"})
}

func rollbackProbeOf(g *sim.G, label string, kinds []string) []*sim.Op {
	a := g.AdminOp(label+"/a", 100, kinds)
	b := failingMsg(g, label+"/fail")
	ops := []*sim.Op{sim.Multi(a, b)}
	ops = append(ops, followUps(g, label+"/use", a.SdkMsgs()[0])...)
	if g.Pct(label+"/again", 50) {
		ops = append(ops, cloneOp(a))
	}
	return ops
}

// followUps draws operations that *use* the piece of state a (rolled-back) administrative message
// touched: whatever the module kept from the discarded transaction shows up in their outcome.
func followUps(g *sim.G, label string, a sdk.Msg) []*sim.Op {
	m := g.W.Model
	by := sim.Acct(g.Acct(label + "/by"))
	var ops []*sim.Op
	depositTo := func(dom uint32, around *big.Int) *sim.Op {
		amt := big.NewInt(int64(g.Int(label+"/amt", 1, 50)))
		if around != nil {
			amt = new(big.Int).Add(around, big.NewInt(int64(g.Int(label+"/d", -1, 1))))
			if amt.Sign() <= 0 {
				amt = big.NewInt(1)
			}
			if amt.BitLen() > 256 {
				amt = new(big.Int).Set(sim.Max256)
			}
		}
		return sim.TxOp("dep", &types.MsgDepositForBurn{From: by, Amount: sim.Int(amt), DestinationDomain: dom, MintRecipient: sim.Pad32([]byte{9, 9}), BurnToken: m.L.Denom})
	}
	recvFrom := func(dom uint32, tok []byte) *sim.Op {
		yes := true
		in := g.Inbound(label+"/in", sim.InboundOpts{ToModule: &yes, Src: &dom, Submitter: by})
		if tok != nil && len(in.Msg) == 248 {
			copy(in.Msg[116+4:116+36], sim.Pad32(tok))
		}
		att := g.W.HonestAttestation(in.Msg, attest.SigStyle{})
		if att == nil {
			att = []byte{}
		}
		return sim.TxOp("recv", &types.MsgReceiveMessage{From: by, Message: in.Msg, Attestation: att}).WithMeta("module", "1")
	}
	switch x := a.(type) {
	case *types.MsgAddRemoteTokenMessenger:
		ops = append(ops, depositTo(x.DomainId, nil), recvFrom(x.DomainId, nil))
	case *types.MsgRemoveRemoteTokenMessenger:
		ops = append(ops, depositTo(x.DomainId, nil), recvFrom(x.DomainId, nil))
	case *types.MsgLinkTokenPair:
		ops = append(ops, recvFrom(x.RemoteDomain, x.RemoteToken))
	case *types.MsgUnlinkTokenPair:
		ops = append(ops, recvFrom(x.RemoteDomain, x.RemoteToken))
	case *types.MsgSetMaxBurnAmountPerMessage:
		if ds := g.DomainsWithMessenger(); len(ds) > 0 && !x.Amount.IsNil() {
			ops = append(ops, depositTo(ds[0], x.Amount.BigInt()))
			if lim, ok := m.Limits[strings.ToLower(x.LocalToken)]; ok {
				ops = append(ops, depositTo(ds[0], lim))
			}
		}
	case *types.MsgUpdateMaxMessageBodySize:
		body := g.Bytes(label+"/body", int(minU64(x.MessageSize+1, 300)))
		ops = append(ops, sim.TxOp("send", &types.MsgSendMessage{From: by, DestinationDomain: 0, Recipient: sim.Pad32([]byte{5}), MessageBody: body}))
		if ds := g.DomainsWithMessenger(); len(ds) > 0 {
			ops = append(ops, depositTo(ds[0], nil))
		}
	case *types.MsgEnableAttester, *types.MsgDisableAttester, *types.MsgUpdateSignatureThreshold:
		// an attestation by the set as the rolled-back change would have left it
		var want []*attest.Key
		ks := g.W.EnabledKeys()
		t := int(m.Thr)
		switch y := a.(type) {
		case *types.MsgEnableAttester:
			if k := sim.KeyOfSpelling(y.Attester); k >= 0 {
				want = append(want, attest.K(k))
			}
			for _, k := range ks {
				if len(want) < t {
					want = append(want, k)
				}
			}
		case *types.MsgDisableAttester:
			if k := sim.KeyOfSpelling(y.Attester); k >= 0 {
				want = append(want, attest.K(k))
			}
			for _, k := range ks {
				if len(want) < t && (len(want) == 0 || k.Idx != want[0].Idx) {
					want = append(want, k)
				}
			}
		case *types.MsgUpdateSignatureThreshold:
			for _, k := range ks {
				if len(want) < int(y.Amount) {
					want = append(want, k)
				}
			}
		}
		if len(want) > 0 && len(want) <= 16 {
			no := false
			in := g.Inbound(label+"/in", sim.InboundOpts{ToModule: &no, Submitter: by})
			ops = append(ops, sim.TxOp("recv", &types.MsgReceiveMessage{From: by, Message: in.Msg, Attestation: attest.Attest(in.Msg, want, attest.SigStyle{})}))
			// and a replacement of an own (forged, A3 lifted) message attested the same way
			om := &refcodec.Message{Version: 0, Source: 4, Dest: 1, Nonce: uint64(g.Int(label+"/n", 0, 1<<20)), Sender: sim.Pad32(sdk.MustAccAddressFromBech32(by)),
				Recip: sim.Pad32([]byte{3}), Caller: make([]byte, 32), Body: []byte{1}}
			ob, _ := refcodec.EncodeMessage(om)
			ops = append(ops, sim.TxOp("replace", &types.MsgReplaceMessage{From: by, OriginalMessage: ob, OriginalAttestation: attest.Attest(ob, want, attest.SigStyle{}), NewMessageBody: []byte{2}, NewDestinationCaller: make([]byte, 32)}).WithMeta("orig", "forged-own"))
		}
	case *types.MsgPauseBurningAndMinting, *types.MsgUnpauseBurningAndMinting, *types.MsgPauseSendingAndReceivingMessages, *types.MsgUnpauseSendingAndReceivingMessages:
		ops = append(ops, sim.TxOp("send", &types.MsgSendMessage{From: by, DestinationDomain: 0, Recipient: sim.Pad32([]byte{5}), MessageBody: []byte{1}}))
		if ds := g.DomainsWithMessenger(); len(ds) > 0 {
			ops = append(ops, depositTo(ds[0], nil))
		}
	case *types.MsgUpdatePauser:
		ops = append(ops, sim.TxOp("admin:PauseBurningAndMinting", &types.MsgPauseBurningAndMinting{From: x.NewPauser}))
	case *types.MsgUpdateAttesterManager:
		ops = append(ops, sim.TxOp("admin:UpdateSignatureThreshold", &types.MsgUpdateSignatureThreshold{From: x.NewAttesterManager, Amount: uint32(len(m.Atts))}))
	case *types.MsgUpdateTokenController:
		ops = append(ops, sim.TxOp("admin:SetMaxBurnAmountPerMessage", &types.MsgSetMaxBurnAmountPerMessage{From: x.NewTokenController, LocalToken: m.L.Denom, Amount: sim.Int(big.NewInt(12345))}))
	case *types.MsgUpdateOwner:
		ops = append(ops, sim.TxOp("admin:AcceptOwner", &types.MsgAcceptOwner{From: x.NewOwner}))
	}
	// only submitters the transaction decoder accepts
	var out []*sim.Op
	for _, op := range ops {
		if _, err := sdk.AccAddressFromBech32(sim.FromOf(op.SdkMsgs()[0])); err == nil {
			out = append(out, op)
		}
	}
	return out
}

func minU64(a, b uint64) uint64 {
	if a < b {
		return a
	}
	return b
}

// doubleReceiveProbe: the same receive twice in one transaction (the second copy is rejected, the SDK
// discards both), then the same message alone.
func doubleReceiveProbe(g *sim.G, label string) []*sim.Op {
	op := g.RecvOp(label, 0)
	if len(op.SdkMsgs()) != 1 {
		return nil
	}
	return []*sim.Op{sim.Multi(op, cloneOp(op)), cloneOp(op).WithMeta("vary", "after-double-receive")}
}

// failingMsg draws a message that is certain to fail but, before failing, reads different parts of the
// state (so that anything loaded while an earlier message's change was visible could stick).
func failingMsg(g *sim.G, label string) *sim.Op {
	m := g.W.Model
	by := sim.Acct(g.Acct(label + "/by"))
	switch g.Int(label+"/k", 0, 3) {
	case 0:
		// the threshold update reads the attester list and the threshold, then fails: too high
		return sim.TxOp("admin:UpdateSignatureThreshold", &types.MsgUpdateSignatureThreshold{From: m.Roles[1], Amount: uint32(len(m.Atts) + 5)})
	case 1:
		// validly attested receive for another destination domain: reads flags, attesters, threshold
		no := false
		bad := g.Inbound(label+"/bad", sim.InboundOpts{ToModule: &no, Submitter: by, Break: []string{"P4"}}).Msg
		if att := g.W.HonestAttestation(bad, attest.SigStyle{}); att != nil {
			return sim.TxOp("recv", &types.MsgReceiveMessage{From: by, Message: bad, Attestation: att})
		}
	case 2:
		// deposit of amount 0 is rejected at once; a deposit with an unknown token reads messengers first
		dom := uint32(0)
		if ds := g.DomainsWithMessenger(); len(ds) > 0 {
			dom = ds[0]
		}
		return sim.TxOp("dep", &types.MsgDepositForBurn{From: by, Amount: sim.Int(big.NewInt(5)), DestinationDomain: dom, MintRecipient: sim.Pad32([]byte{7}), BurnToken: "unotthedenom"})
	}
	// nobody's pending-owner acceptance by an account that is not pending
	if m.Pending != nil && *m.Pending == by {
		by = sim.Acct((sim.AcctOfBytes(sdk.MustAccAddressFromBech32(by)) + 1) % sim.NAccts)
	}
	return sim.TxOp("admin:AcceptOwner", &types.MsgAcceptOwner{From: by})
}

// queuedOp pops an op queued by an earlier generator step of the same case.
func queuedOp(g *sim.G) *sim.Op {
	if g.W.Scratch == nil {
		return nil
	}
	q, _ := g.W.Scratch["queue"].([]*sim.Op)
	if len(q) == 0 {
		return nil
	}
	g.W.Scratch["queue"] = q[1:]
	return q[0]
}

func queueOps(g *sim.G, ops ...*sim.Op) {
	if g.W.Scratch == nil {
		g.W.Scratch = map[string]any{}
	}
	q, _ := g.W.Scratch["queue"].([]*sim.Op)
	g.W.Scratch["queue"] = append(q, ops...)
}

// messengerChangeProbe: a deposit whose message is "in flight" while the owner re-registers the
// destination domain's token messenger under another address (or just removes it); then the depositor
// replaces the deposit. Message and event of the replacement speak of the original messenger.
func messengerChangeProbe(g *sim.G, label string) []*sim.Op {
	var cands []sim.SentMsg
	modPad := sim.Pad32(sim.ModuleAddrBytes())
	for _, s := range g.W.Sent {
		if s.Burn != nil && s.Msg != nil && eq(s.Msg.Sender, modPad) && sim.AcctOfBytes(s.Burn.MsgSender[12:]) >= 0 {
			if _, ok := g.W.Model.Msgrs[s.Msg.Dest]; ok {
				cands = append(cands, s)
			}
		}
	}
	if len(cands) == 0 {
		return nil
	}
	s := sim.Pick(g, label+"/dep", cands)
	m := g.W.Model
	by := sdk.AccAddress(s.Burn.MsgSender[12:]).String()
	ops := []*sim.Op{sim.TxOp("admin:RemoveRemoteTokenMessenger", &types.MsgRemoveRemoteTokenMessenger{From: m.Roles[0], DomainId: s.Msg.Dest})}
	if g.Pct(label+"/readd", 70) {
		other := append([]byte{}, s.Msg.Recip...)
		other[31] ^= byte(g.Int(label+"/x", 1, 255))
		ops = append(ops, sim.TxOp("admin:AddRemoteTokenMessenger", &types.MsgAddRemoteTokenMessenger{From: m.Roles[0], DomainId: s.Msg.Dest, Address: other}))
	}
	att := g.HonestAttestation(label+"/att", s.Bytes)
	if att == nil {
		return ops
	}
	ops = append(ops, sim.TxOp("repdep", &types.MsgReplaceDepositForBurn{From: by, OriginalMessage: append([]byte{}, s.Bytes...), OriginalAttestation: att,
		NewDestinationCaller: make([]byte, 32), NewMintRecipient: g.NonZero32(label+"/mr", by)}).WithMeta("orig", "own-deposit"))
	return ops
}

// ambiguousPairProbe: two receives whose (source domain, nonce) pairs read the same when their decimal digits are
// written one after the other ((1, 23) and (12, 3)), a genesis round trip, and both messages again: whatever keys or
// de-duplicates by plain concatenation loses one of them.
func ambiguousPairProbe(g *sim.G, label string) []*sim.Op {
	ds := g.DomainsWithMessenger()
	if len(ds) == 0 {
		return nil
	}
	d1 := sim.Pick(g, label+"/d1", ds)
	n1 := uint64(g.Int(label+"/n1", 10, 99999))
	s := fmt.Sprint(d1) + fmt.Sprint(n1)
	var cands []sim.UsedSpec
	for k := 1; k < len(s); k++ {
		var d2 uint32
		var n2 uint64
		if _, err := fmt.Sscan(s[:k], &d2); err != nil {
			continue
		}
		if _, err := fmt.Sscan(s[k:], &n2); err != nil {
			continue
		}
		if k != len(fmt.Sprint(d1)) && fmt.Sprint(d2)+fmt.Sprint(n2) == s && !g.W.Model.Used[sim.UsedSpec{Domain: d2, Nonce: n2}] {
			cands = append(cands, sim.UsedSpec{Domain: d2, Nonce: n2})
		}
	}
	if len(cands) == 0 || g.W.Model.Used[sim.UsedSpec{Domain: d1, Nonce: n1}] {
		return nil
	}
	c := sim.Pick(g, label+"/partner", cands)
	by := sim.Acct(g.Acct(label + "/by"))
	mk := func(l string, toModule bool, d uint32, n uint64) *sim.Op {
		in := g.Inbound(l, sim.InboundOpts{ToModule: &toModule, Src: &d, Nonce: &n, Submitter: by})
		att := g.HonestAttestation(l+"/att", in.Msg)
		if att == nil {
			att = []byte{}
		}
		op := sim.TxOp("recv", &types.MsgReceiveMessage{From: by, Message: in.Msg, Attestation: att})
		if toModule {
			op.WithMeta("module", "1")
		}
		return op
	}
	a, b := mk(label+"/a", true, d1, n1), mk(label+"/b", false, c.Domain, c.Nonce)
	if g.Bool(label + "/order") {
		a, b = b, a
	}
	return []*sim.Op{a, b, restartOp(g), cloneOp(a).WithMeta("vary", "after-restart"), cloneOp(b).WithMeta("vary", "after-restart")}
}

// restartOp: a genesis round trip; optional scalars that equal their defaults may be left out of the file.
func restartOp(g *sim.G) *sim.Op {
	op := &sim.Op{Kind: "restart", Label: "restart"}
	var drop []string
	for _, f := range []string{"maxbody", "nextnonce", "threshold"} {
		if g.Pct("restart/drop-"+f, 40) {
			drop = append(drop, f)
		}
	}
	if len(drop) > 0 {
		op.WithMeta("drop", strings.Join(drop, ","))
	}
	return op
}

func (m Mix) next(g *sim.G) *sim.Op {
	if op := queuedOp(g); op != nil {
		return op
	}
	if m.Restart > 0 && len(g.W.Steps) > 0 && g.Pct("restart", m.Restart) {
		return restartOp(g)
	}
	if n := len(g.W.Steps); m.Recv > 0 && n > 0 && g.W.Steps[n-1].Op.Kind == "restart" {
		// right after an export/import the most recently accepted messages are submitted again
		var ops []*sim.Op
		for i := n - 1; i >= 0 && len(ops) < 8; i-- {
			st := g.W.Steps[i]
			if st.Op.Kind == "tx" && st.OK() && len(st.Msgs) == 1 {
				if _, ok := st.Msgs[0].(*types.MsgReceiveMessage); ok {
					ops = append(ops, cloneOp(st.Op).WithMeta("vary", "after-restart"))
				}
			}
		}
		if len(ops) > 0 {
			queueOps(g, ops[1:]...)
			return ops[0]
		}
	}
	if m.Rollback > 0 && g.Pct("rollbackprobe", m.Rollback) {
		ops := rollbackProbe(g, "rb")
		queueOps(g, ops[1:]...)
		return ops[0]
	}
	if m.Restart > 0 && m.Recv > 0 && g.Pct("ambprobe", 3) {
		if ops := ambiguousPairProbe(g, "amb"); ops != nil {
			queueOps(g, ops[1:]...)
			return ops[0]
		}
	}
	if m.MsgrProbe > 0 && g.Pct("msgrprobe", m.MsgrProbe) {
		if ops := messengerChangeProbe(g, "mp"); ops != nil {
			queueOps(g, ops[1:]...)
			return ops[0]
		}
	}
	if m.AttProbe > 0 && g.Pct("attprobe", m.AttProbe) {
		// the attester manager enables or disables an entry (under whatever spelling it has), then
		// submissions attested by the set as that change leaves it
		kind := g.Int("ap/kind", 0, 4)
		if kind == 4 {
			// an enabled entry X and entries whose strings extend it ("X/01", "X00"); then X is disabled:
			// exactly the named entry goes
			if l := g.W.Model.AttesterList(); len(l) > 0 {
				x := sim.Pick(g, "ap/xbase", l)
				mgr := g.W.Model.Roles[1]
				ops := []*sim.Op{
					sim.TxOp("admin:EnableAttester", &types.MsgEnableAttester{From: mgr, Attester: x + sim.Pick(g, "ap/xs1", []string{"/01", "/", "/zz"})}),
					sim.TxOp("admin:EnableAttester", &types.MsgEnableAttester{From: mgr, Attester: x + sim.Pick(g, "ap/xs2", []string{"00", "0", "ff"})}),
					sim.TxOp("admin:DisableAttester", &types.MsgDisableAttester{From: mgr, Attester: x}),
				}
				queueOps(g, ops[1:]...)
				return ops[0]
			}
			kind = 0
		}
		if kind == 3 {
			// twins: one key enabled under two spellings (two registry entries), one of them disabled;
			// the other entry must stay, and its signature keeps counting
			ks := g.W.EnabledKeys()
			x := attest.K(g.Int("ap/tk", 0, sim.NKeys-1))
			a := g.Int("ap/ta", 0, 5)
			b := (a + 1 + g.Int("ap/tb", 0, 4)) % 6
			mgr := g.W.Model.Roles[1]
			ops := []*sim.Op{
				sim.TxOp("admin:EnableAttester", &types.MsgEnableAttester{From: mgr, Attester: x.Spelling(a)}),
				sim.TxOp("admin:EnableAttester", &types.MsgEnableAttester{From: mgr, Attester: x.Spelling(b)}),
			}
			if c := (b + 1 + g.Int("ap/tc", 0, 3)) % 6; c != a && c != b {
				// a third spelling, under which nothing is stored: names no entry
				ops = append(ops, sim.TxOp("admin:DisableAttester", &types.MsgDisableAttester{From: mgr, Attester: x.Spelling(c)}))
			}
			ops = append(ops, sim.TxOp("admin:DisableAttester", &types.MsgDisableAttester{From: mgr, Attester: x.Spelling(a)}))
			_ = ks
			// a receive signed by x and as many others as the threshold needs
			ops = append(ops, followUps(g, "ap/twinuse", &types.MsgEnableAttester{From: mgr, Attester: x.Spelling(b)})...)
			queueOps(g, ops[1:]...)
			return ops[0]
		}
		if kind >= 1 {
			// a key that is not enabled is enabled under some spelling, used, disabled under that very spelling, used again
			ks := g.W.EnabledKeys()
			var x *attest.Key
			for i, off := 0, g.Int("ap/off", 0, sim.NKeys-1); i < sim.NKeys && x == nil; i++ {
				k := attest.K((i + off) % sim.NKeys)
				used := false
				for _, e := range ks {
					used = used || e.Idx == k.Idx
				}
				if !used {
					x = k
				}
			}
			if x != nil {
				sp := x.Spelling(g.Int("ap/sp", 0, 5))
				mgr := g.W.Model.Roles[1]
				en := sim.TxOp("admin:EnableAttester", &types.MsgEnableAttester{From: mgr, Attester: sp})
				dis := sim.TxOp("admin:DisableAttester", &types.MsgDisableAttester{From: mgr, Attester: sp})
				queueOps(g, followUps(g, "ap/use1", en.SdkMsgs()[0])...)
				queueOps(g, dis)
				queueOps(g, followUps(g, "ap/use2", dis.SdkMsgs()[0])...)
				return en
			}
		}
		a := g.AdminOp("ap", 100, []string{"EnableAttester", "DisableAttester"})
		queueOps(g, followUps(g, "ap/use", a.SdkMsgs()[0])...)
		return a
	}
	if m.Rollback > 0 && m.Recv > 0 && g.Pct("doublereceive", 2) {
		if ops := doubleReceiveProbe(g, "dr"); ops != nil {
			queueOps(g, ops[1:]...)
			return ops[0]
		}
	}
	// an ownership transfer in flight: let the pending owner accept now and then (otherwise rare)
	if p := g.W.Model.Pending; p != nil && m.Admin > 0 && len(m.AdminTypes) == 0 && g.Pct("accept-pending", 10) {
		if a, err := sdk.AccAddressFromBech32(*p); err == nil && sim.AcctOfBytes(a) >= 0 {
			return sim.TxOp("admin:AcceptOwner", &types.MsgAcceptOwner{From: *p})
		}
	}
	total := m.Send + m.Dep + m.Recv + m.Replay + m.Replace + m.RepDep + m.Admin + m.Ledger + m.Multi
	k := g.Int("op", 0, total-1)
	pick := func(w int) bool {
		if k < w {
			return true
		}
		k -= w
		return false
	}
	switch {
	case pick(m.Send):
		return g.SendOp("send")
	case pick(m.Dep):
		op := g.DepositOp("dep", m.DepValid)
		if m.FaultPct > 0 && g.Pct("dep/fault", m.FaultPct) {
			op.WithFault(g.Int("dep/faultord", 0, 1))
		}
		return op
	case pick(m.Recv):
		op := g.RecvOp("recv", m.RecvBroken)
		if m.FaultPct > 0 && g.Pct("recv/fault", m.FaultPct) {
			op.WithFault(0)
		}
		return op
	case pick(m.Replay):
		return replayOp(g, "replay")
	case pick(m.Replace):
		return g.ReplaceOp("rep", m.ReplaceValid)
	case pick(m.RepDep):
		return g.RepDepOp("repdep", m.ReplaceValid)
	case pick(m.Admin):
		return g.AdminOp("admin", m.AdminHolder, m.AdminTypes)
	case pick(m.Ledger):
		return g.LedgerOpDraw("ledger")
	default:
		a := m
		a.Multi, a.Ledger = 0, 0
		x, y := a.next(g), a.next(g)
		return sim.Multi(x, y)
	}
}

// typedEvents returns the events of type T in a step, in order.
func typedEvents[T proto.Message](s *sim.Step) []T {
	var out []T
	for _, e := range s.Events {
		if x, ok := e.(T); ok {
			out = append(out, x)
		}
	}
	return out
}

func eq(a, b []byte) bool { return bytes.Equal(a, b) }

func hexs(b []byte) string { return fmt.Sprintf("%x", b) }

// ---- C02: an attested message is consumed at most once ------------------------------------------

type c02 struct {
	used      map[sim.UsedSpec]bool
	tracked   map[sim.UsedSpec]bool
	successes int
	replays   int // replays (valid but for the nonce) of an earlier success
	failThenOK int
	failed    map[sim.UsedSpec]bool
	varies    map[string]bool
}

func (c *c02) Begin(w *sim.World) {
	c.used, c.tracked, c.failed, c.varies = map[sim.UsedSpec]bool{}, map[sim.UsedSpec]bool{}, map[sim.UsedSpec]bool{}, map[string]bool{}
	for i, u := range w.Gen.Used {
		c.used[u] = true
		if i < 8 {
			c.track(u)
		}
	}
}

func (c *c02) track(u sim.UsedSpec) {
	c.tracked[u] = true
	// neighbours that a non-injective or mixed-up key would confuse
	c.tracked[sim.UsedSpec{Domain: uint32(u.Nonce), Nonce: uint64(u.Domain)}] = true
	c.tracked[sim.UsedSpec{Domain: u.Domain, Nonce: u.Nonce + 1}] = true
	c.tracked[sim.UsedSpec{Domain: u.Domain + 1, Nonce: u.Nonce}] = true
	c.tracked[sim.UsedSpec{Domain: uint32(u.Nonce), Nonce: u.Nonce}] = true
	c.tracked[sim.UsedSpec{Domain: u.Domain, Nonce: uint64(u.Domain)}] = true
	c.tracked[sim.UsedSpec{Domain: u.Domain << 8, Nonce: u.Nonce >> 8}] = true
}

func (c *c02) Step(w *sim.World, s *sim.Step) *Viol {
	if v := recvResponses("C02", s); v != nil {
		return v
	}
	if s.Op.Kind == "tx" {
		for _, m := range s.Msgs {
			rm, ok := m.(*types.MsgReceiveMessage)
			if !ok {
				continue
			}
			dm, err := refcodec.DecodeMessage(rm.Message)
			if err != nil {
				if s.OK() {
					return viol("C02", s.Idx, "receive of an undecodable message succeeded", "failure", "success")
				}
				continue
			}
			u := sim.UsedSpec{Domain: dm.Source, Nonce: dm.Nonce}
			c.track(u)
			if s.OK() {
				if c.used[u] {
					return viol("C02", s.Idx, fmt.Sprintf("second successful receive for (domain %d, nonce %d)", u.Domain, u.Nonce), "at most one success per pair", "another success")
				}
				c.used[u] = true
				c.successes++
				if c.failed[u] {
					c.failThenOK++
				}
			} else {
				if !c.used[u] && len(s.Msgs) == 1 && strings.Contains(s.Res.Log, "nonce already used") {
					return viol("C02", s.Idx, fmt.Sprintf("receive for (domain %d, nonce %d) rejected as already used although no receive for the pair succeeded and genesis does not list it", u.Domain, u.Nonce), "not reported as used", s.Res.Log)
				}
				if c.used[u] && s.Exp != nil && len(s.Exp.Why) == 1 && s.Exp.Why[0] == "P6-nonce-unused" {
					c.replays++
					if v := s.Op.Meta["vary"]; v != "" {
						c.varies[v] = true
					}
				}
				if !c.used[u] {
					c.failed[u] = true
				}
			}
		}
	}
	// single-item query for every tracked pair
	for u := range c.tracked {
		var resp types.QueryGetUsedNonceResponse
		code, _ := w.Chain.Query("UsedNonce", &types.QueryGetUsedNonceRequest{SourceDomain: u.Domain, Nonce: u.Nonce}, &resp)
		found := code == 0
		if found != c.used[u] {
			return viol("C02", s.Idx, fmt.Sprintf("used-nonce query for (domain %d, nonce %d)", u.Domain, u.Nonce), c.used[u], found)
		}
		if found && (resp.Nonce.SourceDomain != u.Domain || resp.Nonce.Nonce != u.Nonce) {
			return viol("C02", s.Idx, "used-nonce query returns another pair", u, resp.Nonce)
		}
	}
	return c.lists(w, s.Idx)
}

// lists compares the paginated list and the exported list with the model set.
func (c *c02) lists(w *sim.World, idx int) *Viol {
	want := map[string]int{}
	for u := range c.used {
		want[fmt.Sprintf("%d/%d", u.Domain, u.Nonce)] = 1
	}
	got := map[string]int{}
	var key []byte
	for page := 0; page < 1000; page++ {
		var resp types.QueryAllUsedNoncesResponse
		if code, lg := w.Chain.Query("UsedNonces", &types.QueryAllUsedNoncesRequest{Pagination: &query.PageRequest{Key: key, Limit: 64}}, &resp); code != 0 {
			return viol("C02", idx, "used-nonces list query", "answer", lg)
		}
		for _, n := range resp.UsedNonces {
			got[fmt.Sprintf("%d/%d", n.SourceDomain, n.Nonce)]++
		}
		if resp.Pagination == nil || len(resp.Pagination.NextKey) == 0 {
			break
		}
		key = resp.Pagination.NextKey
	}
	if fmt.Sprint(want) != fmt.Sprint(got) {
		return viol("C02", idx, "used-nonces list vs set of (genesis + successful receives)", want, got)
	}
	g, err := w.Chain.Export()
	if err != nil {
		return viol("C02", idx, "export", "ok", err)
	}
	got = map[string]int{}
	for _, n := range g.UsedNoncesList {
		got[fmt.Sprintf("%d/%d", n.SourceDomain, n.Nonce)]++
	}
	if fmt.Sprint(want) != fmt.Sprint(got) {
		return viol("C02", idx, "exported used-nonce list vs set of (genesis + successful receives)", want, got)
	}
	return nil
}

func (c *c02) End(w *sim.World) *Viol { return nil }

func (c *c02) Summary(w *sim.World) (string, []string) {
	var cls []string
	for v := range c.varies {
		cls = append(cls, "replay-vary:"+v)
	}
	if c.failThenOK > 0 {
		cls = append(cls, "failed-then-succeeded")
	}
	if c.successes > 0 {
		cls = append(cls, "has-success")
	}
	if c.replays > 0 {
		cls = append(cls, "nontrivial")
		return shapeOf(w), cls
	}
	return "", cls
}

var C02 = register(&HistProp{ID: "C02",
	Genesis: func(t *rapid.T) *sim.GenSpec {
		return sim.DrawGenesis(t, sim.GenOpts{UsedInGen: true, NoPause: true, Decoys: true, ManyUsed: true, NoAttesters: true})
	},
	Next: func(g *sim.G, i int) *sim.Op {
		return Mix{Recv: 8, Replay: 7, Admin: 3, Send: 1, Multi: 1, RecvBroken: 35, AdminHolder: 85, Restart: 3, Rollback: 4, AttProbe: 3,
			AdminTypes: []string{"PauseBurningAndMinting", "UnpauseBurningAndMinting", "PauseSendingAndReceivingMessages", "UnpauseSendingAndReceivingMessages",
				"EnableAttester", "DisableAttester", "UpdateSignatureThreshold", "LinkTokenPair", "UnlinkTokenPair", "AddRemoteTokenMessenger", "RemoveRemoteTokenMessenger"}}.next(g)
	},
	MinOps: 3, MaxOps: 30, New: func() Checker { return &c02{} }, Require: []string{"nontrivial", "failed-then-succeeded", "replay-vary:body", "replay-vary:encoding", "replay-vary:submitter"}})

// ---- strict-verdict properties: C03, C08, C10 (histories), C12, C13 ---------------------------------

// strict enforces the model's verdict for the message kinds the property names.
type strict struct {
	id      string
	applies func(m sdk.Msg) bool
	extra   func(c *strict, w *sim.World, s *sim.Step) *Viol
	summary func(c *strict, w *sim.World) (string, []string)
	fields  []string // model/chain state slices compared after every step
	seen    map[string]bool
	classes map[string]int
	nt      []string
}

func (c *strict) Begin(w *sim.World) { c.seen, c.classes, c.nt = map[string]bool{}, map[string]int{}, nil }

func (c *strict) Step(w *sim.World, s *sim.Step) *Viol {
	if s.Op.Kind == "tx" && len(s.Msgs) > 0 {
		app := false
		for _, m := range s.Msgs {
			if c.applies(m) {
				app = true
			}
		}
		if app {
			if v := strictVerdict(c.id, s); v != nil {
				return v
			}
			if v := unchanged(c.id, s); v != nil {
				return v
			}
			if v := recvResponses(c.id, s); v != nil {
				return v
			}
		}
	}
	if c.extra != nil {
		if v := c.extra(c, w, s); v != nil {
			return v
		}
	}
	if len(c.fields) > 0 {
		if d := stateDiff(w, c.fields...); len(d) > 0 {
			return viol(c.id, s.Idx, "state visible through export differs from the reference model after "+s.Op.Label, "agreement", strings.Join(d, "; "))
		}
	}
	return nil
}

func (c *strict) End(w *sim.World) *Viol { return nil }

func (c *strict) Summary(w *sim.World) (string, []string) {
	if c.summary != nil {
		return c.summary(c, w)
	}
	var cls []string
	for k := range c.classes {
		cls = append(cls, k)
	}
	if len(c.nt) > 0 {
		cls = append(cls, "nontrivial")
		return strings.Join(c.nt, "\x1f"), cls
	}
	return "", cls
}

func condVector(e *sim.Expect) string {
	if e == nil || e.Conds == nil {
		return ""
	}
	var parts []string
	for _, k := range sortedKeys(e.Conds) {
		v := "1"
		if !e.Conds[k] {
			v = "0"
		}
		parts = append(parts, k+"="+v)
	}
	return strings.Join(parts, ",")
}

func sortedKeys(m map[string]bool) []string {
	var ks []string
	for k := range m {
		ks = append(ks, k)
	}
	// insertion sort (small)
	for i := 1; i < len(ks); i++ {
		for j := i; j > 0 && ks[j] < ks[j-1]; j-- {
			ks[j], ks[j-1] = ks[j-1], ks[j]
		}
	}
	return ks
}

func isRecv(m sdk.Msg) bool { _, ok := m.(*types.MsgReceiveMessage); return ok }
func isDeposit(m sdk.Msg) bool {
	switch m.(type) {
	case *types.MsgDepositForBurn, *types.MsgDepositForBurnWithCaller:
		return true
	}
	return false
}

// C03: receive succeeds exactly when every acceptance condition holds; failure = no mint, nonce free.
func c03extra(c *strict, w *sim.World, s *sim.Step) *Viol {
	if s.Op.Kind != "tx" || len(s.Msgs) != 1 || !isRecv(s.Msgs[0]) {
		return nil
	}
	rm := s.Msgs[0].(*types.MsgReceiveMessage)
	vec := condVector(s.Exp)
	c.classes["attempts"]++
	if len(rm.Message) >= 116 {
		if !c.seen[vec] {
			c.seen[vec] = true
			c.nt = append(c.nt, vec)
		}
	} else {
		c.classes["short-message"]++
	}
	if s.Exp != nil {
		c.classes[fmt.Sprintf("false-conditions:%d", len(s.Exp.Why))]++
		for _, y := range s.Exp.Why {
			c.classes["false:"+y]++
		}
	}
	if s.OK() {
		c.classes["accepted"]++
		// nonce now used
		if dm, err := refcodec.DecodeMessage(rm.Message); err == nil {
			if !w.Chain.Keeper.GetUsedNonce(w.Chain.CommittedCtx(), types.Nonce{SourceDomain: dm.Source, Nonce: dm.Nonce}) {
				return viol("C03", s.Idx, "accepted receive did not consume its nonce", "used", "unused")
			}
		}
		return nil
	}
	// failure: no effective mint, nonce not consumed (stores unchanged is checked by unchanged())
	if ledgerInt(s.PostLed, "minted/"+w.Model.L.NDenom()).Cmp(ledgerInt(s.PreLed, "minted/"+w.Model.L.NDenom())) != 0 {
		return viol("C03", s.Idx, "failed receive minted", "no mint", "minted total changed")
	}
	return nil
}

var recvAdmin = []string{"PauseBurningAndMinting", "UnpauseBurningAndMinting", "UnpauseBurningAndMinting", "PauseSendingAndReceivingMessages", "UnpauseSendingAndReceivingMessages", "UnpauseSendingAndReceivingMessages",
	"EnableAttester", "DisableAttester", "UpdateSignatureThreshold", "LinkTokenPair", "UnlinkTokenPair", "AddRemoteTokenMessenger", "RemoveRemoteTokenMessenger"}

// staleAttestationProbe: a module-addressed receive that is validly attested but rejected because minting
// is paused; then one of its signers is disabled (or the threshold raised), minting unpaused, and the very
// same bytes are submitted again: the attestation is no longer valid.
func staleAttestationProbe(g *sim.G, label string) []*sim.Op {
	m := g.W.Model
	ks := g.W.EnabledKeys()
	t := int(m.Thr)
	if len(ks) < 2 || len(m.Atts) <= t || t < 1 || len(ks) < t {
		return nil
	}
	by := sim.Acct(g.Acct(label + "/by"))
	yes := true
	in := g.Inbound(label+"/in", sim.InboundOpts{ToModule: &yes, Submitter: by})
	signers := ks[:t]
	att := attest.Attest(in.Msg, signers, attest.SigStyle{})
	victim := signers[g.Int(label+"/victim", 0, len(signers)-1)]
	var spelling string
	for _, s := range m.AttesterList() {
		if sim.KeyOfSpelling(s) == victim.Idx {
			spelling = s
		}
	}
	recv := func() *sim.Op {
		return sim.TxOp("recv", &types.MsgReceiveMessage{From: by, Message: append([]byte{}, in.Msg...), Attestation: append([]byte{}, att...)}).WithMeta("module", "1")
	}
	return []*sim.Op{
		sim.TxOp("admin:PauseBurningAndMinting", &types.MsgPauseBurningAndMinting{From: m.Roles[2]}),
		recv(),
		sim.TxOp("admin:DisableAttester", &types.MsgDisableAttester{From: m.Roles[1], Attester: spelling}),
		sim.TxOp("admin:UnpauseBurningAndMinting", &types.MsgUnpauseBurningAndMinting{From: m.Roles[2]}),
		recv().WithMeta("vary", "stale-attestation"),
	}
}

var C03 = register(&HistProp{ID: "C03",
	Genesis: func(t *rapid.T) *sim.GenSpec { return sim.DrawGenesis(t, sim.GenOpts{UsedInGen: true, Decoys: true, AbsentOpt: true, ManyUsed: true, OtherLocal: true, NoAttesters: true}) },
	Next: func(g *sim.G, i int) *sim.Op {
		if op := queuedOp(g); op != nil {
			return op
		}
		if g.Pct("staleatt", 4) {
			if ops := staleAttestationProbe(g, "stale"); ops != nil {
				queueOps(g, ops[1:]...)
				return ops[0]
			}
		}
		return Mix{Recv: 14, Replay: 4, Admin: 4, Ledger: 2, RecvBroken: 65, AdminHolder: 90, FaultPct: 5, Rollback: 4, AttProbe: 3, Restart: 2, AdminTypes: recvAdmin}.next(g)
	},
	MinOps: 3, MaxOps: 25,
	New: func() Checker {
		return &strict{id: "C03", applies: isRecv, extra: c03extra, fields: []string{"used"}}
	}, Require: []string{"nontrivial", "accepted", "false-conditions:2", "false:M6-mint", "false:P1-sr-unpaused", "false:M1-bm-unpaused", "false:P7-caller"}})

// C08: deposits accepted exactly under the documented preconditions.
func c08extra(c *strict, w *sim.World, s *sim.Step) *Viol {
	if s.Op.Kind != "tx" || len(s.Msgs) != 1 || !isDeposit(s.Msgs[0]) {
		return nil
	}
	c.classes["attempts"]++
	var amt *big.Int
	var tok string
	switch x := s.Msgs[0].(type) {
	case *types.MsgDepositForBurn:
		amt, tok = x.Amount.BigInt(), x.BurnToken
	case *types.MsgDepositForBurnWithCaller:
		amt, tok = x.Amount.BigInt(), x.BurnToken
	}
	nontriv := false
	if lim, ok := s.Pre.Limits[strings.ToLower(tok)]; ok && amt != nil {
		d := new(big.Int).Sub(amt, lim)
		if d.CmpAbs(big.NewInt(1)) <= 0 {
			nontriv = true
			c.classes[fmt.Sprintf("amount=limit%+d", d.Int64())]++
		}
	}
	if s.Pre.MaxBody >= 131 && s.Pre.MaxBody <= 133 {
		nontriv = true
		c.classes[fmt.Sprintf("max-body=%d", s.Pre.MaxBody)]++
	}
	if s.Exp != nil && len(s.Exp.Why) >= 2 {
		nontriv = true
		c.classes["false-preconditions>=2"]++
	}
	if s.Exp != nil {
		for _, y := range s.Exp.Why {
			c.classes["false:"+y]++
		}
	}
	if tok != w.Model.L.Denom && strings.EqualFold(tok, w.Model.L.Denom) {
		c.classes["token-case-variant"]++
	}
	if s.OK() {
		c.classes["accepted"]++
	}
	if nontriv {
		k := condVector(s.Exp) + "|" + amt.String() + "|" + fmt.Sprint(s.Pre.MaxBody)
		if !c.seen[k] {
			c.seen[k] = true
			c.nt = append(c.nt, hashKey(k))
		}
	}
	return nil
}

var C08 = register(&HistProp{ID: "C08",
	Genesis: func(t *rapid.T) *sim.GenSpec { return sim.DrawGenesis(t, sim.GenOpts{BigBalances: true, MixedDenom: true, AbsentOpt: true, CaseLimits: true, OddMessenger: true}) },
	Next: func(g *sim.G, i int) *sim.Op {
		return Mix{Dep: 14, Admin: 5, Ledger: 2, DepValid: 45, AdminHolder: 92, FaultPct: 6, Rollback: 5,
			AdminTypes: []string{"SetMaxBurnAmountPerMessage", "SetMaxBurnAmountPerMessage", "UpdateMaxMessageBodySize", "AddRemoteTokenMessenger", "RemoveRemoteTokenMessenger",
				"PauseBurningAndMinting", "UnpauseBurningAndMinting", "PauseSendingAndReceivingMessages", "UnpauseSendingAndReceivingMessages"}}.next(g)
	},
	MinOps: 3, MaxOps: 25,
	Prelude: c08prelude,
	New: func() Checker { return &strict{id: "C08", applies: isDeposit, extra: c08extra} },
	Require: []string{"nontrivial", "accepted", "amount=limit+0", "amount=limit+1", "max-body=132", "max-body=131", "false:can-pay", "false:burn-ok", "false:messenger", "false:caller"}})

// c08prelude: depositors whose account address is not 20 bytes long (32-byte addresses are what interchain and
// module-derived accounts have; 1 and 255 bytes are the ends of what the SDK calls an address). The statement's
// preconditions do not mention the depositor's address length: such a depositor that can pay is served like any other.
func c08prelude() []*sim.Case {
	chain.SetupSDK()
	var out []*sim.Case
	for _, n := range []int{32, 1, 21, 255} {
		raw := make([]byte, n)
		for i := range raw {
			raw[i] = byte(0x41 + i%23)
		}
		by := sdk.AccAddress(raw).String()
		gs := enumGenesis([4]int{0, 1, 2, 3})
		gs.Ledger.Balances = append(gs.Ledger.Balances, chain.LedgerBal{Addr: by, Denom: "uusdc", Amount: "5000"})
		mr := sim.Pad32([]byte{7, 7})
		out = append(out, &sim.Case{Gen: gs, Ops: []*sim.Op{
			sim.TxOp("admin", &types.MsgSetMaxBurnAmountPerMessage{From: sim.Acct(3), LocalToken: "uusdc", Amount: sim.Int(big.NewInt(1000))}),
			sim.TxOp("dep", &types.MsgDepositForBurn{From: by, Amount: sim.Int(big.NewInt(1000)), DestinationDomain: 0, MintRecipient: mr, BurnToken: "uusdc"}),
			sim.TxOp("dep", &types.MsgDepositForBurn{From: by, Amount: sim.Int(big.NewInt(1001)), DestinationDomain: 0, MintRecipient: mr, BurnToken: "uusdc"}),
			sim.TxOp("depc", &types.MsgDepositForBurnWithCaller{From: by, Amount: sim.Int(big.NewInt(999)), DestinationDomain: 0, MintRecipient: mr, BurnToken: "uusdc", DestinationCaller: sim.Pad32([]byte{9})}),
		}})
	}
	return out
}
