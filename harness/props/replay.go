package props

import (
	"encoding/json"
	"fmt"
	"os"
	"testing"

	"verif/harness/sim"
)

// replayers for non-history kinds register here.
var replayers = map[string]func(raw []byte) *Viol{}

// runReplay re-executes the case of $VERIF_REPLAY without the property library
// and prints REPLAY-VIOLATION iff the oracle still fails.
func runReplay(t *testing.T) {
	path := os.Getenv("VERIF_REPLAY")
	if path == "" {
		t.Skip("no VERIF_REPLAY")
	}
	bz, err := os.ReadFile(path)
	if err != nil {
		t.Fatalf("HARNESS: %v", err)
	}
	var r Replay
	if err := json.Unmarshal(bz, &r); err != nil {
		t.Fatalf("HARNESS: %v", err)
	}
	var v *Viol
	if r.Kind == "history" {
		p := histProps[r.Property]
		if p == nil {
			t.Fatalf("HARNESS: unknown property %s", r.Property)
		}
		var c sim.Case
		if err := json.Unmarshal(r.Case, &c); err != nil {
			t.Fatalf("HARNESS: %v", err)
		}
		_, _, v, err = p.RunCase(&c)
		if err != nil {
			t.Fatalf("HARNESS: %v", err)
		}
	} else {
		f := replayers[r.Kind]
		if f == nil {
			t.Fatalf("HARNESS: unknown replay kind %s", r.Kind)
		}
		v = f(r.Case)
	}
	if v != nil {
		fmt.Printf("REPLAY-VIOLATION %s\n", v)
		t.Fail()
	}
}
