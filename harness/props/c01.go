package props

import (
	"math/big"
	"bytes"
	"encoding/hex"
	"fmt"
	"sort"
	"strings"
	"testing"

	"github.com/circlefin/noble-cctp/x/cctp/keeper"
	"github.com/circlefin/noble-cctp/x/cctp/types"
	sdk "github.com/cosmos/cosmos-sdk/types"
	"pgregory.net/rapid"

	"verif/harness/attest"
	"verif/harness/refcodec"
	"verif/harness/sim"
)

// ---- C01: inbound messages need a quorum of distinct enabled attesters ----------------------------------

type attEntry struct {
	Key   int `json:"key"`
	Style int `json:"style"`
}

// slot describes one signature of an attestation plan.
type slot struct {
	Signer  int    `json:"signer"`  // universe key index
	Payload string `json:"payload"` // exact | bitflip | prefix | other
	V       string `json:"v"`       // 01 | 2728 | raw:<n>
	Twin    bool   `json:"twin,omitempty"`
}

type dupSpec struct {
	Of   int    `json:"of"`
	Mode string `json:"mode"` // same | twin | respell
}

type plan struct {
	Slots   []slot   `json:"slots"`
	Arrange string   `json:"arrange"` // asc | desc | perm
	Perm    []int    `json:"perm,omitempty"`
	Dup     *dupSpec `json:"dup,omitempty"`
	Edit    string   `json:"edit"` // none | trunc | pad | extra-sig | drop-sig
	K       int      `json:"k,omitempty"`
	Extra   int      `json:"extra,omitempty"` // signer of the extra signature
}

type c01case struct {
	Enabled   []attEntry `json:"enabled"`
	Decoys    []string   `json:"decoys,omitempty"`
	Threshold uint32     `json:"threshold"`
	Msg       string     `json:"msg"` // hex
	Plan      *plan      `json:"plan,omitempty"`
	RawAtt    string     `json:"raw_att,omitempty"` // hex; used when Plan is nil
	Mutate    []int      `json:"mutate,omitempty"`  // byte positions (mod len) to flip bit 0x10 in the built attestation
}

type sigDesc struct {
	signer  int
	exact   bool
	canonV  bool
	twin    bool
	whole   bool // false for raw/edited bytes that no longer are a described signature
	bytes   []byte
}

func signSlot(msg []byte, s slot) sigDesc {
	payload := msg
	switch s.Payload {
	case "bitflip":
		payload = append([]byte{}, msg...)
		if len(payload) == 0 {
			payload = []byte{1}
		} else {
			payload[len(payload)/2] ^= 4
		}
	case "prefix":
		if len(msg) > 0 {
			payload = msg[:len(msg)-1]
		} else {
			payload = []byte{0}
		}
	case "other":
		payload = []byte("some other bytes entirely")
	}
	d := sigDesc{signer: s.Signer, exact: s.Payload == "exact", twin: s.Twin, whole: true}
	if strings.HasPrefix(s.Payload, "derived:") {
		// a signature over a 32-byte value derived from the message that is not its Keccak-256 digest
		dg := attest.DerivedDigest(strings.TrimPrefix(s.Payload, "derived:"), msg)
		d.bytes, d.canonV = attest.SignDigest(dg, attest.K(s.Signer), attest.SigStyle{Twin: s.Twin, Legacy: s.V == "2728"}), true
		return d
	}
	switch {
	case s.V == "01":
		d.bytes, d.canonV = attest.Sign(payload, attest.K(s.Signer), attest.SigStyle{Twin: s.Twin}), true
	case s.V == "2728":
		d.bytes, d.canonV = attest.Sign(payload, attest.K(s.Signer), attest.SigStyle{Twin: s.Twin, Legacy: true}), true
	default:
		var n int
		fmt.Sscanf(s.V, "raw:%d", &n)
		d.bytes = attest.Sign(payload, attest.K(s.Signer), attest.SigStyle{Twin: s.Twin})
		// keep the parity information out: overwrite v entirely
		d.bytes[64] = byte(n)
		d.canonV = n == 0 || n == 1 || n == 27 || n == 28
		if d.canonV {
			// a raw canonical value may or may not match the real recovery id: truth is left to the reference
			d.whole = false
		}
	}
	return d
}

// build renders the plan; truth is non-nil where acceptance is known by construction.
func (p *plan) build(msg []byte, enabled map[int]bool, t uint32) (att []byte, truth *bool, anyValid bool) {
	var descs []sigDesc
	for _, s := range p.Slots {
		descs = append(descs, signSlot(msg, s))
	}
	switch p.Arrange {
	case "asc":
		sort.SliceStable(descs, func(i, j int) bool {
			return bytes.Compare(attest.K(descs[i].signer).Addr, attest.K(descs[j].signer).Addr) < 0
		})
	case "desc":
		sort.SliceStable(descs, func(i, j int) bool {
			return bytes.Compare(attest.K(descs[i].signer).Addr, attest.K(descs[j].signer).Addr) > 0
		})
	case "perm":
		if len(p.Perm) == len(descs) {
			nd := make([]sigDesc, len(descs))
			for i, j := range p.Perm {
				nd[i] = descs[j]
			}
			descs = nd
		}
	}
	if p.Dup != nil && len(descs) > 0 {
		i := p.Dup.Of % len(descs)
		d := descs[i]
		d.bytes = append([]byte{}, d.bytes...)
		switch p.Dup.Mode {
		case "twin":
			s := p.Slots[0]
			for _, sl := range p.Slots {
				if sl.Signer == d.signer {
					s = sl
				}
			}
			s.Twin = !s.Twin
			d = signSlot(msg, s)
		case "respell":
			if d.bytes[64] <= 1 {
				d.bytes[64] += 27
			} else if d.bytes[64] == 27 || d.bytes[64] == 28 {
				d.bytes[64] -= 27
			}
		}
		descs = append(descs[:i+1], append([]sigDesc{d}, descs[i+1:]...)...)
	}
	switch p.Edit {
	case "extra-sig":
		descs = append(descs, signSlot(msg, slot{Signer: p.Extra, Payload: "exact", V: "01"}))
	case "drop-sig":
		if len(descs) > 0 {
			descs = descs[:len(descs)-1]
		}
	}
	for _, d := range descs {
		att = append(att, d.bytes...)
		if d.whole && d.exact && d.canonV && enabled[d.signer] {
			anyValid = true
		}
	}
	known := true
	switch p.Edit {
	case "trunc":
		k := p.K
		if k > len(att) {
			k = len(att)
		}
		att = att[:len(att)-k]
		known = k%65 != 0
	case "pad":
		att = append(att, make([]byte, p.K)...)
		known = p.K%65 != 0
	}
	for _, d := range descs {
		if !d.whole {
			known = false
		}
	}
	if !known {
		return att, nil, anyValid
	}
	acc := uint64(len(att)) == 65*uint64(t) && t != 0 && len(descs) == int(t)
	if p.Edit == "trunc" || p.Edit == "pad" {
		acc = false // length is not a multiple of 65 here
	}
	var prev []byte
	for _, d := range descs {
		if !acc {
			break
		}
		if !(d.exact && d.canonV && enabled[d.signer]) {
			acc = false
		}
		a := attest.K(d.signer).Addr
		if prev != nil && bytes.Compare(prev, a) >= 0 {
			acc = false
		}
		prev = a
	}
	return att, &acc, anyValid
}

func (c *c01case) attesterStrings() []string {
	var out []string
	for _, e := range c.Enabled {
		out = append(out, attest.K(e.Key).Spelling(e.Style))
	}
	return append(out, c.Decoys...)
}

func (c *c01case) attestation() (att []byte, truth *bool, anyValid bool) {
	msg, _ := hex.DecodeString(c.Msg)
	if c.Plan == nil {
		att, _ = hex.DecodeString(c.RawAtt)
		return att, nil, false
	}
	en := map[int]bool{}
	for _, e := range c.Enabled {
		en[e.Key] = true
	}
	att, truth, anyValid = c.Plan.build(msg, en, c.Threshold)
	if len(c.Mutate) > 0 && len(att) > 0 {
		att = append([]byte{}, att...)
		for _, pos := range c.Mutate {
			att[pos%len(att)] ^= 0x10
		}
		truth = nil
	}
	return
}

// judge compares the implementation's verdict with the reference verifier's.
func judgeAttestation(id string, step int, where string, implAccept bool, rv attest.Verdict, threshold uint32) *Viol {
	if implAccept && !rv.Accept {
		return viol(id, step, where+": attestation accepted although the reference verifier rejects it ("+rv.Reason+")", "reject", "accept")
	}
	if implAccept && rv.Distinct < int(threshold) {
		return viol(id, step, where+": accepted with fewer than threshold distinct enabled signers", fmt.Sprintf(">=%d", threshold), rv.Distinct)
	}
	if !implAccept && rv.Accept && rv.AllCanonicalV {
		return viol(id, step, where+": honest attestation (threshold distinct enabled attesters, ascending, v in {0,1,27,28}) rejected", "accept", "reject")
	}
	return nil
}

func c01check(c *c01case) (v *Viol, nt bool, classes []string, harness string) {
	msg, _ := hex.DecodeString(c.Msg)
	att, truth, anyValid := c.attestation()
	strs := c.attesterStrings()
	var attesters []types.Attester
	for _, s := range strs {
		attesters = append(attesters, types.Attester{Attester: s})
	}
	rv := attest.Verify(msg, att, strs, c.Threshold)
	if truth != nil && *truth != rv.Accept {
		return nil, false, nil, fmt.Sprintf("oracle self-check: constructed truth %v, reference verifier %v (%s)", *truth, rv.Accept, rv.Reason)
	}
	var err error
	if p := safely(func() {
		err = keeper.VerifyAttestationSignatures(append([]byte{}, msg...), append([]byte{}, att...), attesters, c.Threshold)
	}); p != nil {
		return viol("C01", 0, "attestation verifier panicked", "error or nil", p), false, nil, ""
	}
	if v := judgeAttestation("C01", 0, "exported verifier", err == nil, rv, c.Threshold); v != nil {
		return v, false, nil, ""
	}
	nt = anyValid && uint64(len(att)) == 65*uint64(c.Threshold)
	if err == nil {
		classes = append(classes, "accepted")
	} else {
		classes = append(classes, "rejected")
	}
	if c.Plan != nil {
		classes = append(classes, "arrange:"+c.Plan.Arrange, "edit:"+c.Plan.Edit)
		if c.Plan.Dup != nil {
			classes = append(classes, "dup:"+c.Plan.Dup.Mode)
		}
		for _, s := range c.Plan.Slots {
			if s.Twin {
				classes = append(classes, "has-twin")
			}
			if s.V == "2728" {
				classes = append(classes, "has-legacy-v")
			}
			if s.Payload != "exact" {
				classes = append(classes, "payload:"+s.Payload)
			}
		}
		if truth == nil {
			classes = append(classes, "truth-by-reference-only")
		}
	} else {
		classes = append(classes, "raw-bytes")
	}
	return nil, nt, classes, ""
}

// genPlan draws an attestation plan for the enabled keys and threshold.
func genPlan(t *rapid.T, enabledKeys []int, thr int, label string) *plan {
	p := &plan{Arrange: "asc", Edit: "none"}
	honest := rapid.IntRange(0, 9).Draw(t, label+"/honest") < 3
	n := thr
	if !honest {
		n = thr + rapid.SampledFrom([]int{0, 0, 0, 0, -1, 1}).Draw(t, label+"/dn")
		if n < 0 {
			n = 0
		}
	}
	// signers: distinct enabled keys first, then others
	perm := rapid.Permutation(enabledKeys).Draw(t, label+"/signers")
	for i := 0; i < n; i++ {
		s := slot{Payload: "exact", V: "01"}
		if i < len(perm) {
			s.Signer = perm[i]
		} else {
			s.Signer = rapid.IntRange(0, 15).Draw(t, label+"/othersigner")
		}
		if rapid.IntRange(0, 3).Draw(t, label+"/legacy") == 0 {
			s.V = "2728"
		}
		if rapid.IntRange(0, 5).Draw(t, label+"/twin") == 0 {
			s.Twin = true
		}
		if !honest {
			switch rapid.IntRange(0, 19).Draw(t, label+"/tamper") {
			case 0:
				s.Signer = 16 + rapid.IntRange(0, 7).Draw(t, label+"/unknown") // never enabled
				if len(enabledKeys) > 0 && rapid.Bool().Draw(t, label+"/related") {
					// a key algebraically related to an enabled one: its negation (same X) or an endomorphism
					// multiple (same Y) -- never enabled either
					base := enabledKeys[rapid.IntRange(0, len(enabledKeys)-1).Draw(t, label+"/relbase")]
					s.Signer = attest.RelatedBase + 3*base + rapid.IntRange(0, 2).Draw(t, label+"/relkind")
				}
			case 1:
				s.Signer = rapid.IntRange(0, 15).Draw(t, label+"/any") // possibly disabled / duplicate
			case 2:
				s.Payload = rapid.SampledFrom([]string{"bitflip", "prefix", "other", "derived:eip191", "derived:eip191msg", "derived:sha256", "derived:sha3", "derived:keccak2", "derived:keccakhex"}).Draw(t, label+"/payload")
			case 3:
				s.V = fmt.Sprintf("raw:%d", rapid.SampledFrom([]int{0, 1, 2, 3, 4, 26, 27, 28, 29, 255}).Draw(t, label+"/rawv"))
			}
		}
		p.Slots = append(p.Slots, s)
	}
	if !honest && len(p.Slots) > 0 && rapid.IntRange(0, 24).Draw(t, label+"/allderived") == 0 {
		// the whole quorum signs one and the same wrong digest (a signing back end that wraps or re-hashes)
		kind := "derived:" + rapid.SampledFrom(attest.DerivedKinds).Draw(t, label+"/dkind")
		for i := range p.Slots {
			p.Slots[i].Payload = kind
		}
	}
	if !honest {
		switch rapid.IntRange(0, 9).Draw(t, label+"/arr") {
		case 0:
			p.Arrange = "desc"
		case 1, 2:
			p.Arrange = "perm"
			p.Perm = rapid.Permutation(seqInts(len(p.Slots))).Draw(t, label+"/perm")
		}
		if len(p.Slots) > 0 && rapid.IntRange(0, 5).Draw(t, label+"/dup") == 0 {
			p.Dup = &dupSpec{Of: rapid.IntRange(0, len(p.Slots)-1).Draw(t, label+"/dupof"), Mode: rapid.SampledFrom([]string{"same", "twin", "respell"}).Draw(t, label+"/dupmode")}
			if rapid.Bool().Draw(t, label+"/dupreplace") && len(p.Slots) > 1 {
				// keep the total count at the threshold: a duplicate instead of the last signer
				p.Slots = p.Slots[:len(p.Slots)-1]
				if p.Dup.Of >= len(p.Slots) {
					p.Dup.Of = len(p.Slots) - 1
				}
				if p.Arrange == "perm" {
					p.Arrange = "asc"
				}
			}
		}
		switch rapid.IntRange(0, 11).Draw(t, label+"/edit") {
		case 0:
			p.Edit, p.K = "trunc", rapid.SampledFrom([]int{1, 2, 64, 65, 66}).Draw(t, label+"/k")
		case 1:
			p.Edit, p.K = "pad", rapid.SampledFrom([]int{1, 2, 64, 65, 66, 130}).Draw(t, label+"/k")
		case 2:
			p.Edit, p.Extra = "extra-sig", rapid.SampledFrom(append(enabledKeys, 17)).Draw(t, label+"/extra")
		case 3:
			p.Edit = "drop-sig"
		}
	}
	return p
}

func seqInts(n int) []int {
	out := make([]int, n)
	for i := range out {
		out[i] = i
	}
	return out
}

func genDecoys(t *rapid.T, enabled []attEntry) []string {
	var out []string
	n := rapid.IntRange(0, 3).Draw(t, "ndecoys")
	for i := 0; i < n; i++ {
		switch rapid.IntRange(0, 5).Draw(t, "decoy") {
		case 0:
			out = append(out, "zz-not-hex")
		case 1:
			k := attest.K(rapid.IntRange(0, 23).Draw(t, "decoykey"))
			// compressed form of some key (33 bytes): never equals a recovered 65-byte key
			pre := byte(2 + k.Pub[64]&1)
			out = append(out, hex.EncodeToString(append([]byte{pre}, k.Pub[1:33]...)))
		case 2:
			k := attest.K(rapid.IntRange(0, 23).Draw(t, "decoykey"))
			out = append(out, hex.EncodeToString(k.Pub[1:])) // 64 bytes without the 0x04 prefix
		case 3:
			if len(enabled) > 0 {
				e := enabled[rapid.IntRange(0, len(enabled)-1).Draw(t, "respell")]
				out = append(out, attest.K(e.Key).Spelling(e.Style+1)) // same key, second spelling
			}
		case 4:
			out = append(out, "")
		default:
			out = append(out, "0x")
		}
	}
	return out
}

func genC01(t *rapid.T) *c01case {
	c := &c01case{}
	max := 8
	if rapid.IntRange(0, 4).Draw(t, "large") == 0 {
		max = 24
	}
	n := rapid.IntRange(1, max).Draw(t, "nenabled")
	keys := rapid.Permutation(seqInts(16)).Draw(t, "keys")
	if n > 16 {
		n = 16
	}
	var enabledKeys []int
	for _, k := range keys[:n] {
		c.Enabled = append(c.Enabled, attEntry{Key: k, Style: rapid.IntRange(0, 5).Draw(t, "style")})
		enabledKeys = append(enabledKeys, k)
	}
	c.Decoys = genDecoys(t, c.Enabled)
	total := len(c.Enabled) + len(c.Decoys)
	c.Threshold = uint32(rapid.IntRange(1, total).Draw(t, "threshold"))
	if rapid.IntRange(0, 2).Draw(t, "tsmall") > 0 && int(c.Threshold) > n {
		c.Threshold = uint32(rapid.IntRange(1, n).Draw(t, "threshold2"))
	}
	var msg []byte
	if rapid.Bool().Draw(t, "wellformed") {
		m := &refcodec.Message{Version: 0, Source: rapid.Uint32().Draw(t, "src"), Dest: 4, Nonce: rapid.Uint64().Draw(t, "nonce"),
			Sender: rapid.SliceOfN(rapid.Byte(), 32, 32).Draw(t, "sender"), Recip: rapid.SliceOfN(rapid.Byte(), 32, 32).Draw(t, "recip"), Caller: make([]byte, 32),
			Body: rapid.SliceOfN(rapid.Byte(), 0, 140).Draw(t, "body")}
		msg, _ = refcodec.EncodeMessage(m)
	} else {
		msg = rapid.SliceOfN(rapid.Byte(), 0, 400).Draw(t, "msg")
	}
	c.Msg = hex.EncodeToString(msg)
	switch rapid.IntRange(0, 19).Draw(t, "mode") {
	case 0:
		c.RawAtt = hex.EncodeToString(rapid.SliceOfN(rapid.Byte(), 65*int(c.Threshold), 65*int(c.Threshold)).Draw(t, "rawatt"))
	case 1:
		c.Plan = genPlan(t, enabledKeys, int(c.Threshold), "plan")
		c.Mutate = rapid.SliceOfN(rapid.IntRange(0, 1<<20), 1, 2).Draw(t, "mutate")
	default:
		c.Plan = genPlan(t, enabledKeys, int(c.Threshold), "plan")
	}
	return c
}

// relatedPrelude: a quorum "completed" by keys related to one enabled key (registry of 9, threshold 3).
func relatedPrelude() []*c01case {
	msg := hex.EncodeToString([]byte("prelude message"))
	var en []attEntry
	for i := 0; i < 9; i++ {
		en = append(en, attEntry{Key: i, Style: i % 6})
	}
	ex := func(signer int) slot { return slot{Signer: signer, Payload: "exact", V: "01"} }
	return []*c01case{
		{Enabled: en, Threshold: 2, Msg: msg, Plan: &plan{Slots: []slot{ex(0), ex(attest.RelatedBase)}, Arrange: "asc", Edit: "none"}},
		{Enabled: en, Threshold: 3, Msg: msg, Plan: &plan{Slots: []slot{ex(1), ex(attest.RelatedBase + 3*1 + 1), ex(attest.RelatedBase + 3*1 + 2)}, Arrange: "asc", Edit: "none"}},
		{Enabled: en[:3], Threshold: 2, Msg: msg, Plan: &plan{Slots: []slot{ex(2), ex(attest.RelatedBase + 3*2)}, Arrange: "asc", Edit: "none"}},
	}
}

// largeQuorumPrelude: thresholds of 16 and more (where an implementation may verify in batches or in
// parallel) with one defect at every position: an adjacent duplicate (same bytes, high-s twin), an adjacent
// swap, an unknown signer. Raw attestations, judged by the reference verifier.
func largeQuorumPrelude() []*c01case {
	msg := []byte("large quorum prelude message ..................................................................................................")
	var out []*c01case
	for _, t := range []int{16, 17, 24, 32, 33} {
		var en []attEntry
		var ks []*attest.Key
		for i := 0; i < t+2; i++ {
			en = append(en, attEntry{Key: i, Style: i % 6})
			ks = append(ks, attest.K(i))
		}
		attest.SortByAddr(ks)
		var sigs [][]byte
		for _, k := range ks[:t] {
			sigs = append(sigs, attest.Sign(msg, k, attest.SigStyle{}))
		}
		mk := func(edit func(ss [][]byte)) *c01case {
			ss := make([][]byte, len(sigs))
			for i := range sigs {
				ss[i] = append([]byte{}, sigs[i]...)
			}
			edit(ss)
			return &c01case{Enabled: en, Threshold: uint32(t), Msg: hex.EncodeToString(msg), RawAtt: hex.EncodeToString(bytes.Join(ss, nil))}
		}
		out = append(out, mk(func([][]byte) {}))
		for p := 0; p+1 < t; p++ {
			p := p
			out = append(out,
				mk(func(ss [][]byte) { ss[p+1] = append([]byte{}, ss[p]...) }),
				mk(func(ss [][]byte) { ss[p+1] = attest.Sign(msg, ks[p], attest.SigStyle{Twin: true}) }),
				mk(func(ss [][]byte) { ss[p], ss[p+1] = ss[p+1], ss[p] }))
			if p%8 == 0 || p%8 == 7 || p == t-2 {
				out = append(out, mk(func(ss [][]byte) { ss[p] = attest.Sign(msg, attest.K(100+p), attest.SigStyle{}) }))
			}
		}
	}
	return out
}

func c01prelude() []*c01case {
	msg := hex.EncodeToString([]byte("prelude message"))
	en := []attEntry{{0, 0}, {1, 1}, {2, 2}, {3, 5}}
	ex := func(signer int, v string, twin bool) slot { return slot{Signer: signer, Payload: "exact", V: v, Twin: twin} }
	out := []*c01case{
		{Enabled: en, Threshold: 3, Msg: msg, Plan: &plan{Slots: []slot{ex(0, "01", false), ex(1, "2728", false), ex(2, "01", true)}, Arrange: "asc", Edit: "none"}},
		{Enabled: en, Threshold: 3, Msg: msg, Plan: &plan{Slots: []slot{ex(0, "01", false), ex(1, "01", false), ex(2, "01", false)}, Arrange: "desc", Edit: "none"}},
		// third signature by a key that was never enabled
		{Enabled: en, Threshold: 3, Msg: msg, Plan: &plan{Slots: []slot{ex(0, "01", false), ex(1, "01", false), ex(17, "01", false)}, Arrange: "asc", Edit: "none"}},
		// twin of an earlier signature instead of a third signer
		{Enabled: en, Threshold: 3, Msg: msg, Plan: &plan{Slots: []slot{ex(0, "01", false), ex(1, "01", false)}, Arrange: "asc", Dup: &dupSpec{Of: 1, Mode: "twin"}, Edit: "none"}},
		// one valid signature too many
		{Enabled: en, Threshold: 2, Msg: msg, Plan: &plan{Slots: []slot{ex(0, "01", false), ex(1, "01", false)}, Arrange: "asc", Edit: "extra-sig", Extra: 2}},
		// right keys over other bytes in the last slot
		{Enabled: en, Threshold: 3, Msg: msg, Plan: &plan{Slots: []slot{ex(0, "01", false), ex(1, "01", false), {Signer: 2, Payload: "bitflip", V: "01"}}, Arrange: "asc", Edit: "none"}},
		{Enabled: en, Decoys: []string{"zz", attest.K(0).Spelling(3)}, Threshold: 4, Msg: msg, Plan: &plan{Slots: []slot{ex(0, "01", false), ex(1, "01", false), ex(2, "01", false), ex(3, "2728", true)}, Arrange: "asc", Edit: "none"}},
		{Enabled: en, Threshold: 2, Msg: msg, RawAtt: hex.EncodeToString(make([]byte, 130))},
	}
	// registry entries that are a whole key followed by characters that are no hex digits stand for no key: the key they
	// begin with was never enabled (or was disabled under its own spelling) and must not count
	k3 := attest.K(3).Spelling(0)
	for _, junk := range []string{k3 + "zz", strings.TrimPrefix(k3, "0") + "0/01", k3 + "/", "0x" + k3 + " "} {
		out = append(out, &c01case{Enabled: en[:3], Decoys: []string{junk}, Threshold: 3, Msg: msg,
			Plan: &plan{Slots: []slot{ex(0, "01", false), ex(1, "01", false), ex(3, "01", false)}, Arrange: "asc", Edit: "none"}})
	}
	// enabled attesters, right order, right count - over a digest derived from the message that is not its Keccak-256
	for i, kind := range attest.DerivedKinds {
		dv := func(signer int) slot { return slot{Signer: signer, Payload: "derived:" + kind, V: []string{"01", "2728"}[i%2]} }
		out = append(out,
			&c01case{Enabled: en, Threshold: 3, Msg: msg, Plan: &plan{Slots: []slot{dv(0), dv(1), dv(2)}, Arrange: "asc", Edit: "none"}},
			&c01case{Enabled: en, Threshold: 3, Msg: msg, Plan: &plan{Slots: []slot{ex(0, "01", false), ex(1, "01", false), dv(2)}, Arrange: "asc", Edit: "none"}},
			&c01case{Enabled: en, Threshold: 1, Msg: hex.EncodeToString(make([]byte, 32)), Plan: &plan{Slots: []slot{dv(3)}, Arrange: "asc", Edit: "none"}})
	}
	return out
}

func RunC01(t *testing.T) {
	st := newStats("C01")
	st.ID = "C01-L0"
	defer st.Write()
	run := func(c *c01case, extra string) (*Viol, string) {
		v, nt, cls, harness := c01check(c)
		if v != nil || harness != "" {
			return v, harness
		}
		key := ""
		if nt {
			sp := ""
			for _, e := range c.Enabled {
				sp += fmt.Sprint(e.Style)
			}
			bz, _ := jsonMarshal(c.Plan)
			key = fmt.Sprintf("%s|%d|%d|%s", bz, c.Threshold, len(c.Enabled), sp)
		}
		cc := *c
		st.Case(key, func() any { return cc }, append(cls, extra)...)
		return nil, ""
	}
	for _, c := range append(append(c01prelude(), relatedPrelude()...), largeQuorumPrelude()...) {
		if v, h := run(c, "prelude"); v != nil || h != "" {
			if h != "" {
				t.Fatalf("HARNESS %s", h)
			}
			saveFail("C01", "c01", c, v)
			t.Fatalf("VIOLATION %s", v)
		}
	}
	rapid.Check(t, func(rt *rapid.T) {
		c := genC01(rt)
		v, h := run(c, "random")
		if h != "" {
			rt.Fatalf("HARNESS %s case=%+v", h, c)
		}
		if v != nil {
			saveFail("C01", "c01", c, v)
			rt.Fatalf("VIOLATION %s", v)
		}
	})
	if !t.Failed() {
		st.Healthy(t, "accepted", "rejected", "has-twin", "has-legacy-v", "dup:twin", "dup:same", "dup:respell", "edit:extra-sig", "edit:trunc", "edit:pad", "arrange:perm", "payload:bitflip", "payload:derived:eip191", "payload:derived:sha256", "raw-bytes")
	}
}

func init() {
	replayers["c01"] = func(raw []byte) *Viol {
		var c c01case
		mustJSON(raw, &c)
		v, _, _, _ := c01check(&c)
		return v
	}
}

// ---- C01 on chain (L2): receive and replace with rotation between signing and submission ----------------

type c01l2 struct {
	keys     []string
	cls      map[string]int
	rotated  bool
}

func (c *c01l2) Begin(w *sim.World) { c.cls = map[string]int{} }

func (c *c01l2) Step(w *sim.World, s *sim.Step) *Viol {
	if s.Op.Kind != "tx" || len(s.Msgs) != 1 {
		return nil
	}
	if isAttMsg(s.Msgs[0]) && s.OK() {
		c.rotated = true
	}
	var msg, att []byte
	where := ""
	switch x := s.Msgs[0].(type) {
	case *types.MsgReceiveMessage:
		msg, att, where = x.Message, x.Attestation, "receive-message"
	case *types.MsgReplaceMessage:
		msg, att, where = x.OriginalMessage, x.OriginalAttestation, "replace-message"
	case *types.MsgReplaceDepositForBurn:
		msg, att, where = x.OriginalMessage, x.OriginalAttestation, "replace-deposit-for-burn"
	default:
		return nil
	}
	rv := attest.Verify(msg, att, s.Pre.AttesterList(), s.Pre.Thr)
	// acceptance of the transaction implies acceptance of the attestation
	if s.OK() {
		if v := judgeAttestation("C01", s.Idx, where, true, rv, s.Pre.Thr); v != nil {
			return v
		}
		c.cls[where+":accepted"]++
	} else if s.Exp != nil && s.Exp.V == sim.MustSucceed {
		// every other documented condition holds and the attestation is honest: must be accepted
		return viol("C01", s.Idx, where+": validly attested message rejected", "success", "failure: "+s.Res.Log)
	} else if rv.Accept {
		c.cls[where+":valid-attestation-other-condition-false"]++
	} else {
		c.cls[where+":rejected-attestation"]++
	}
	if cl := s.Op.Meta["plan"]; cl != "" {
		c.cls["plan:"+cl]++
	}
	if s.Op.Meta["stale"] == "1" {
		c.cls["signed-before-rotation"]++
	}
	if s.Op.Meta["anyvalid"] == "1" && uint64(len(att)) == 65*uint64(s.Pre.Thr) {
		c.keys = append(c.keys, hashKey(fmt.Sprintf("%s|%x|%v", where, att, s.Pre.AttesterList())))
	}
	return nil
}

func (c *c01l2) End(w *sim.World) *Viol { return nil }
func (c *c01l2) Summary(w *sim.World) (string, []string) {
	var cls []string
	for k := range c.cls {
		cls = append(cls, k)
	}
	if len(c.keys) > 0 {
		cls = append(cls, "nontrivial")
	}
	return strings.Join(c.keys, "\x1f"), cls
}

// stash of attestations signed under an earlier attester set (rotation between signing and submission)
type stale struct {
	by       string
	msg, att []byte
	replace  bool
}

func staleOf(w *sim.World) []stale {
	if w.Scratch == nil {
		return nil
	}
	st, _ := w.Scratch["stale"].([]stale)
	return st
}

func addStale(w *sim.World, s stale) {
	if w.Scratch == nil {
		w.Scratch = map[string]any{}
	}
	w.Scratch["stale"] = append(staleOf(w), s)
}

// attesterRollbackProbe: an enable (or disable) of an attester in one transaction with a failing
// message, so that the SDK discards it; then a receive whose attestation depends on that attester.
func attesterRollbackProbe(g *sim.G, label string) []*sim.Op {
	w := g.W
	ks := w.EnabledKeys()
	t := int(w.Model.Thr)
	by := sim.Acct(g.Acct(label + "/by"))
	failer := sim.Acct(g.Acct(label + "/f"))
	if w.Model.Pending != nil && *w.Model.Pending == failer {
		failer = sim.Acct((sim.AcctOfBytes(sdk.MustAccAddressFromBech32(failer)) + 1) % sim.NAccts)
	}
	fail := sim.TxOp("admin:AcceptOwner", &types.MsgAcceptOwner{From: failer})
	no := false
	msg := g.Inbound(label+"/in", sim.InboundOpts{ToModule: &no, Submitter: by}).Msg
	if g.Pct(label+"/failrecv", 60) {
		// a receive that is validly attested but fails later (wrong destination domain)
		bad := g.Inbound(label+"/bad", sim.InboundOpts{ToModule: &no, Submitter: failer, Break: []string{"P4"}}).Msg
		if att := w.HonestAttestation(bad, attest.SigStyle{}); att != nil {
			fail = sim.TxOp("recv", &types.MsgReceiveMessage{From: failer, Message: bad, Attestation: att})
		}
	}
	if g.Bool(label+"/enable") || len(ks) < 2 || len(w.Model.Atts) <= t {
		// rolled-back enable of X: an attestation that needs X must still be rejected
		var x *attest.Key
		for i := 0; i < sim.NKeys+8; i++ {
			k := attest.K(i)
			used := false
			for _, e := range ks {
				used = used || e.Idx == k.Idx
			}
			if !used {
				x = k
				break
			}
		}
		en := sim.TxOp("admin:EnableAttester", &types.MsgEnableAttester{From: w.Model.Roles[1], Attester: x.Spelling(g.Int(label+"/sp", 0, 5))})
		signers := []*attest.Key{x}
		if t >= 1 && len(ks) >= t-1 {
			signers = append(signers, ks[:t-1]...)
		}
		att := attest.Attest(msg, signers, attest.SigStyle{})
		recv := sim.TxOp("recv", &types.MsgReceiveMessage{From: by, Message: msg, Attestation: att})
		return []*sim.Op{sim.Multi(en, fail), recv.WithMeta("plan", "rolled-back-enable").WithMeta("anyvalid", "1")}
	}
	// rolled-back disable of Y: an honest attestation that includes Y must still be accepted
	y := ks[g.Int(label+"/y", 0, len(ks)-1)]
	var spelling string
	for _, s := range w.Model.AttesterList() {
		if sim.KeyOfSpelling(s) == y.Idx {
			spelling = s
		}
	}
	dis := sim.TxOp("admin:DisableAttester", &types.MsgDisableAttester{From: w.Model.Roles[1], Attester: spelling})
	signers := []*attest.Key{y}
	for _, k := range ks {
		if len(signers) < t && k.Idx != y.Idx {
			signers = append(signers, k)
		}
	}
	if len(signers) < t {
		return []*sim.Op{sim.Multi(dis, fail)}
	}
	att := attest.Attest(msg, signers, attest.SigStyle{})
	recv := sim.TxOp("recv", &types.MsgReceiveMessage{From: by, Message: msg, Attestation: att})
	return []*sim.Op{sim.Multi(dis, fail), recv.WithMeta("plan", "rolled-back-disable").WithMeta("anyvalid", "1")}
}

func nextC01L2(g *sim.G, i int) *sim.Op {
	w := g.W
	if op := queuedOp(g); op != nil {
		return op
	}
	if g.Pct("attrollback", 8) {
		ops := attesterRollbackProbe(g, "arb")
		queueOps(g, ops[1:]...)
		return ops[0]
	}
	switch k := g.Int("kind", 0, 9); {
	case k <= 2:
		return g.AdminOp("att", 92, []string{"EnableAttester", "DisableAttester", "UpdateSignatureThreshold", "UpdateSignatureThreshold"})
	case k == 3 && len(staleOf(w)) > 0:
		// submit something signed earlier, possibly under a since-rotated set
		st := sim.Pick(g, "stale", staleOf(w))
		var op *sim.Op
		if st.replace {
			op = sim.TxOp("replace", &types.MsgReplaceMessage{From: st.by, OriginalMessage: st.msg, OriginalAttestation: st.att, NewMessageBody: []byte{1}, NewDestinationCaller: make([]byte, 32)})
		} else {
			op = sim.TxOp("recv", &types.MsgReceiveMessage{From: st.by, Message: st.msg, Attestation: st.att})
		}
		return op.WithMeta("stale", "1").WithMeta("anyvalid", "1")
	default:
		by := sim.Acct(g.Acct("by"))
		replace := g.Pct("replace", 40)
		repdep := replace && g.Pct("repdep", 40)
		var msg []byte
		if repdep {
			// a burn message in the module's name with the submitter as depositor (A3 lifted here on purpose)
			body, _ := refcodec.EncodeBurn(&refcodec.Burn{Version: 0, BurnToken: attest.Keccak([]byte(strings.ToLower(w.Model.L.Denom))), MintRecip: g.NonZero32("bmr", by),
				Amount: g.PosAmount("bamt"), MsgSender: sim.Pad32(sdk.MustAccAddressFromBech32(by))})
			m := &refcodec.Message{Version: 0, Source: 4, Dest: g.Domain("dest"), Nonce: uint64(g.Int("n", 0, 1<<30)), Sender: sim.Pad32(sim.ModuleAddrBytes()),
				Recip: g.NonZero32("rc", by), Caller: make([]byte, 32), Body: body}
			msg, _ = refcodec.EncodeMessage(m)
		} else if replace {
			// an own outbound-looking message (A3 lifted here on purpose)
			m := &refcodec.Message{Version: 0, Source: 4, Dest: g.Domain("dest"), Nonce: uint64(g.Int("n", 0, 1<<30)), Sender: sim.Pad32(sdk.MustAccAddressFromBech32(by)),
				Recip: g.NonZero32("rc", by), Caller: make([]byte, 32), Body: g.Bytes("body", g.Int("bl", 0, 40))}
			msg, _ = refcodec.EncodeMessage(m)
		} else {
			no := false
			msg = g.Inbound("in", sim.InboundOpts{ToModule: &no, Submitter: by}).Msg
		}
		// plan over the currently enabled universe keys
		var enabledKeys []int
		seen := map[int]bool{}
		for _, s := range w.Model.AttesterList() {
			if k := sim.KeyOfSpelling(s); k >= 0 && !seen[k] {
				seen[k] = true
				enabledKeys = append(enabledKeys, k)
			}
		}
		sort.Ints(enabledKeys)
		p := genPlan(g.T, enabledKeys, int(w.Model.Thr), "plan")
		en := map[int]bool{}
		for _, k := range enabledKeys {
			en[k] = true
		}
		att, truth, anyValid := p.build(msg, en, w.Model.Thr)
		var op *sim.Op
		if repdep {
			op = sim.TxOp("repdep", &types.MsgReplaceDepositForBurn{From: by, OriginalMessage: msg, OriginalAttestation: att, NewDestinationCaller: make([]byte, 32), NewMintRecipient: g.NonZero32("nmr", by)})
		} else if replace {
			op = sim.TxOp("replace", &types.MsgReplaceMessage{From: by, OriginalMessage: msg, OriginalAttestation: att, NewMessageBody: g.Bytes("nb", 3), NewDestinationCaller: make([]byte, 32)})
		} else {
			op = sim.TxOp("recv", &types.MsgReceiveMessage{From: by, Message: msg, Attestation: att})
		}
		cl := "tampered"
		if truth != nil && *truth {
			cl = "honest"
			if len(staleOf(w)) < 8 {
				// keep a second, distinct honest attestation for later (receive: fresh nonce needed, so re-sign another message)
				by2 := by
				var msg2 []byte
				if replace {
					msg2 = msg
				} else {
					no := false
					msg2 = g.Inbound("in2", sim.InboundOpts{ToModule: &no, Submitter: by2}).Msg
				}
				att2, _, _ := p.build(msg2, en, w.Model.Thr)
				addStale(w, stale{by: by2, msg: msg2, att: att2, replace: replace})
			}
		}
		op.WithMeta("plan", cl)
		if anyValid {
			op.WithMeta("anyvalid", "1")
		}
		return op
	}
}

// c01l2Prelude: quorums far above what the random histories reach (33 of 36, 70 of 70), honest attestations through
// all three entry points: the handlers must accept what the verifier accepts, whatever the size.
func c01l2Prelude() []*sim.Case {
	var out []*sim.Case
	for _, nt := range [][2]int{{36, 33}, {70, 70}} {
		gs := enumGenesis([4]int{0, 1, 2, 3})
		gs.Attesters = nil
		var ks []*attest.Key
		for i := 0; i < nt[0]; i++ {
			gs.Attesters = append(gs.Attesters, attest.K(i).Spelling(i%6))
			ks = append(ks, attest.K(i))
		}
		gs.Threshold = uint32(nt[1])
		attest.SortByAddr(ks)
		signers := ks[:nt[1]]
		by := sim.Acct(4)
		in, _ := refcodec.EncodeMessage(&refcodec.Message{Version: 0, Source: 7, Dest: 4, Nonce: 5, Sender: sim.Pad32([]byte{1}), Recip: sim.Pad32([]byte{2}), Caller: make([]byte, 32), Body: []byte("large quorum")})
		own, _ := refcodec.EncodeMessage(&refcodec.Message{Version: 0, Source: 4, Dest: 1, Nonce: 6, Sender: sim.Pad32(sim.AcctBytes(4)), Recip: sim.Pad32([]byte{3}), Caller: make([]byte, 32), Body: []byte{1}})
		body, _ := refcodec.EncodeBurn(&refcodec.Burn{Version: 0, BurnToken: attest.Keccak([]byte("uusdc")), MintRecip: sim.Pad32([]byte{9}), Amount: big.NewInt(5), MsgSender: sim.Pad32(sim.AcctBytes(4))})
		dep, _ := refcodec.EncodeMessage(&refcodec.Message{Version: 0, Source: 4, Dest: 0, Nonce: 7, Sender: sim.Pad32(sim.ModuleAddrBytes()), Recip: sim.Pad32([]byte{0xbb, 1}), Caller: make([]byte, 32), Body: body})
		att := func(m []byte) []byte { return attest.Attest(m, signers, attest.SigStyle{}) }
		out = append(out, &sim.Case{Gen: gs, Ops: []*sim.Op{
			sim.TxOp("recv", &types.MsgReceiveMessage{From: by, Message: in, Attestation: att(in)}).WithMeta("plan", "honest").WithMeta("anyvalid", "1"),
			sim.TxOp("replace", &types.MsgReplaceMessage{From: by, OriginalMessage: own, OriginalAttestation: att(own), NewMessageBody: []byte{2}, NewDestinationCaller: make([]byte, 32)}).WithMeta("plan", "honest").WithMeta("anyvalid", "1"),
			sim.TxOp("repdep", &types.MsgReplaceDepositForBurn{From: by, OriginalMessage: dep, OriginalAttestation: att(dep), NewDestinationCaller: make([]byte, 32), NewMintRecipient: sim.Pad32([]byte{8})}).WithMeta("plan", "honest").WithMeta("anyvalid", "1"),
		}})
	}
	return out
}

var C01L2 = register(&HistProp{ID: "C01",
	Genesis: func(t *rapid.T) *sim.GenSpec {
		g := sim.DrawGenesis(t, sim.GenOpts{NoPause: true, MaxAtt: 6, NoAttesters: true})
		g.MaxBody = 8000
		return g
	},
	Prelude: c01l2Prelude,
	Next:    nextC01L2, MinOps: 4, MaxOps: 30, New: func() Checker { return &c01l2{} },
	Require: []string{"nontrivial", "receive-message:accepted", "replace-message:accepted", "receive-message:rejected-attestation", "replace-message:rejected-attestation", "replace-deposit-for-burn:accepted", "replace-deposit-for-burn:rejected-attestation", "signed-before-rotation", "plan:honest", "plan:tampered", "plan:rolled-back-enable", "plan:rolled-back-disable"}})

// Native fuzz target (thorough): attestation bytes against a fixed configuration, reference verifier as oracle.
func fuzzAttestation(f *testing.F) {
	msg := []byte("fuzz message for the attestation verifier")
	ks := []*attest.Key{attest.K(0), attest.K(1), attest.K(2), attest.K(3)}
	strs := []string{ks[0].Spelling(0), ks[1].Spelling(1), ks[2].Spelling(2), ks[3].Spelling(5)}
	var attesters []types.Attester
	for _, s := range strs {
		attesters = append(attesters, types.Attester{Attester: s})
	}
	for _, st := range []attest.SigStyle{{}, {Legacy: true}, {Twin: true}} {
		f.Add(attest.Attest(msg, ks[:3], st), uint8(3))
		f.Add(attest.Attest(msg, ks[:2], st), uint8(2))
	}
	f.Add(make([]byte, 65), uint8(1))
	// quorums over digests derived from the message (wrappers, other hash functions), whole and mixed with honest ones
	sorted := append([]*attest.Key{}, ks[:3]...)
	attest.SortByAddr(sorted)
	for _, kind := range attest.DerivedKinds {
		var all, mixed []byte
		for i, k := range sorted {
			d := attest.SignDigest(attest.DerivedDigest(kind, msg), k, attest.SigStyle{})
			all = append(all, d...)
			if i == 2 {
				mixed = append(mixed, d...)
			} else {
				mixed = append(mixed, attest.Sign(msg, k, attest.SigStyle{})...)
			}
		}
		f.Add(all, uint8(2))
		f.Add(mixed, uint8(2))
		f.Add(all[:65], uint8(0))
	}
	// recovery bytes outside {0,1,27,28}
	for _, dv := range []byte{2, 27 + 2, 27 + 3, 35, 36, 254, 255} {
		a := attest.Attest(msg, ks[:2], attest.SigStyle{})
		a[64] += dv
		f.Add(a, uint8(1))
	}
	f.Fuzz(func(t *testing.T, att []byte, thr uint8) {
		th := uint32(thr%4) + 1
		rv := attest.Verify(msg, att, strs, th)
		var err error
		if p := safely(func() {
			err = keeper.VerifyAttestationSignatures(append([]byte{}, msg...), append([]byte{}, att...), attesters, th)
		}); p != nil {
			t.Fatalf("VIOLATION verifier panicked: %v", p)
		}
		if v := judgeAttestation("C01", 0, "exported verifier (fuzz)", err == nil, rv, th); v != nil {
			t.Fatalf("VIOLATION %s att=%x thr=%d", v, att, th)
		}
	})
}
