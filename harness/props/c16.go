package props

import (
	"bytes"
	"encoding/hex"
	"fmt"
	"math/big"
	"testing"

	"github.com/circlefin/noble-cctp/x/cctp/types"
	"pgregory.net/rapid"

	"verif/harness/refcodec"
	"verif/harness/sim"
)

// ---- C16: the wire encodings are the CCTP formats and round-trip exactly -------------------------------

// c16case is the replayable form of one codec case.
type c16case struct {
	What string `json:"what"` // msg-decode | msg-encode | burn-decode | burn-encode
	Hex  string `json:"hex,omitempty"`
	// encode cases
	Version, Source, Dest uint32 `json:",omitempty"`
	Nonce                 uint64 `json:",omitempty"`
	F1, F2, F3, Body      string `json:",omitempty"` // hex fields (sender/recipient/caller or token/mintRecipient/msgSender)
	Amount                string `json:",omitempty"`
}

func safely(f func()) (panicked any) {
	defer func() { panicked = recover() }()
	f()
	return nil
}

func nonzero(b []byte) bool { return !sim.IsZero(b) }

// retained holds earlier encoder outputs (the very slices returned) with private copies of their
// content: an encoder that hands out memory it reuses later would change them behind the caller's back.
var retained struct {
	outs, copies [][]byte
}

func retain(out []byte) *Viol {
	for i, o := range retained.outs {
		if !eq(o, retained.copies[i]) {
			v := viol("C16", 0, "bytes returned by an earlier encode call changed after later values were encoded", hexs(retained.copies[i]), hexs(o))
			retained.outs, retained.copies = nil, nil
			return v
		}
	}
	retained.outs = append(retained.outs, out)
	retained.copies = append(retained.copies, append([]byte{}, out...))
	if len(retained.outs) > 6 {
		retained.outs, retained.copies = retained.outs[1:], retained.copies[1:]
	}
	return nil
}

// c16check runs one case; nt reports non-triviality.
func c16check(c c16case) (v *Viol, nt bool) {
	unhex := func(s string) []byte { b, _ := hex.DecodeString(s); return b }
	switch c.What {
	case "msg-decode":
		bz := unhex(c.Hex)
		var im *types.Message
		var ierr error
		if p := safely(func() { im, ierr = new(types.Message).Parse(append([]byte{}, bz...)) }); p != nil {
			return viol("C16", 0, "message decoder panicked", "error or value", p), false
		}
		rm, rerr := refcodec.DecodeMessage(bz)
		if (ierr == nil) != (rerr == nil) {
			return viol("C16", 0, fmt.Sprintf("message decoder accepts/rejects a %d-byte string", len(bz)), fmt.Sprintf("accept=%v", rerr == nil), fmt.Sprintf("accept=%v", ierr == nil)), false
		}
		if rerr != nil {
			return nil, false
		}
		exp := fmt.Sprintf("version=%d source=%d dest=%d nonce=%d sender=%x recipient=%x caller=%x body=%x", rm.Version, rm.Source, rm.Dest, rm.Nonce, rm.Sender, rm.Recip, rm.Caller, rm.Body)
		got := fmt.Sprintf("version=%d source=%d dest=%d nonce=%d sender=%x recipient=%x caller=%x body=%x", im.Version, im.SourceDomain, im.DestinationDomain, im.Nonce, im.Sender, im.Recipient, im.DestinationCaller, im.MessageBody)
		if exp != got {
			return viol("C16", 0, "decoded message fields vs the CCTP layout", exp, got), false
		}
		var back []byte
		var berr error
		if p := safely(func() { back, berr = im.Bytes() }); p != nil || berr != nil {
			return viol("C16", 0, "re-encoding a decoded message", "bytes", fmt.Sprint(p, berr)), false
		}
		if !eq(back, bz) {
			return viol("C16", 0, "decode then encode returns the same bytes", hexs(bz), hexs(back)), false
		}
		// the same through a decoder value that already decoded another message
		var reused types.Message
		if _, err := reused.Parse(bytes.Repeat([]byte{0xa5}, 116+41)); err == nil {
			if rm2, err := reused.Parse(append([]byte{}, bz...)); err != nil {
				return viol("C16", 0, "decoding into a value that decoded another message before", "value", err), false
			} else if b2, err := rm2.Bytes(); err != nil || !eq(b2, bz) {
				return viol("C16", 0, "decode (into a value that decoded another message before) then encode returns the same bytes", hexs(bz), hexs(b2)), false
			}
		}
		nt = rm.Version != 0 && rm.Source != 0 && rm.Dest != 0 && rm.Nonce != 0 && nonzero(rm.Sender) && nonzero(rm.Recip) && nonzero(rm.Caller) && nonzero(rm.Body)
		return nil, nt
	case "msg-encode":
		m := types.Message{Version: c.Version, SourceDomain: c.Source, DestinationDomain: c.Dest, Nonce: c.Nonce,
			Sender: unhex(c.F1), Recipient: unhex(c.F2), DestinationCaller: unhex(c.F3), MessageBody: unhex(c.Body)}
		var ib []byte
		var ierr error
		if p := safely(func() { ib, ierr = m.Bytes() }); p != nil {
			return viol("C16", 0, "message encoder panicked", "error or bytes", p), false
		}
		rb, rerr := refcodec.EncodeMessage(&refcodec.Message{Version: c.Version, Source: c.Source, Dest: c.Dest, Nonce: c.Nonce, Sender: unhex(c.F1), Recip: unhex(c.F2), Caller: unhex(c.F3), Body: unhex(c.Body)})
		if (ierr == nil) != (rerr == nil) {
			return viol("C16", 0, fmt.Sprintf("message encoder accepts/rejects field sizes %d/%d/%d", len(m.Sender), len(m.Recipient), len(m.DestinationCaller)), fmt.Sprintf("accept=%v", rerr == nil), fmt.Sprintf("accept=%v", ierr == nil)), false
		}
		if rerr != nil {
			return nil, false
		}
		if !eq(ib, rb) {
			return viol("C16", 0, "encoded message vs the CCTP layout", hexs(rb), hexs(ib)), false
		}
		if v := retain(ib); v != nil {
			return v, false
		}
		back, err := new(types.Message).Parse(ib)
		if err != nil {
			return viol("C16", 0, "decoding an encoded message", "value", err), false
		}
		if back.Version != m.Version || back.SourceDomain != m.SourceDomain || back.DestinationDomain != m.DestinationDomain || back.Nonce != m.Nonce ||
			!eq(back.Sender, m.Sender) || !eq(back.Recipient, m.Recipient) || !eq(back.DestinationCaller, m.DestinationCaller) || !eq(back.MessageBody, m.MessageBody) {
			return viol("C16", 0, "encode then decode returns the same value", fmt.Sprint(m), fmt.Sprint(*back)), false
		}
		nt = c.Version != 0 && c.Source != 0 && c.Dest != 0 && c.Nonce != 0 && nonzero(m.Sender) && nonzero(m.Recipient) && nonzero(m.DestinationCaller) && nonzero(m.MessageBody)
		return nil, nt
	case "burn-decode":
		bz := unhex(c.Hex)
		var im *types.BurnMessage
		var ierr error
		if p := safely(func() { im, ierr = new(types.BurnMessage).Parse(append([]byte{}, bz...)) }); p != nil {
			return viol("C16", 0, "burn-message decoder panicked", "error or value", p), false
		}
		rm, rerr := refcodec.DecodeBurn(bz)
		if (ierr == nil) != (rerr == nil) {
			return viol("C16", 0, fmt.Sprintf("burn-message decoder accepts/rejects a %d-byte string", len(bz)), fmt.Sprintf("accept=%v", rerr == nil), fmt.Sprintf("accept=%v", ierr == nil)), false
		}
		if rerr != nil {
			return nil, false
		}
		ia := "nil"
		if !im.Amount.IsNil() {
			ia = im.Amount.String()
		}
		exp := fmt.Sprintf("version=%d token=%x recipient=%x amount=%s sender=%x", rm.Version, rm.BurnToken, rm.MintRecip, rm.Amount, rm.MsgSender)
		got := fmt.Sprintf("version=%d token=%x recipient=%x amount=%s sender=%x", im.Version, im.BurnToken, im.MintRecipient, ia, im.MessageSender)
		if exp != got {
			return viol("C16", 0, "decoded burn-message fields vs the CCTP layout", exp, got), false
		}
		var back []byte
		var berr error
		if p := safely(func() { back, berr = im.Bytes() }); p != nil || berr != nil {
			return viol("C16", 0, "re-encoding a decoded burn message", "bytes", fmt.Sprint(p, berr)), false
		}
		if !eq(back, bz) {
			return viol("C16", 0, "burn message: decode then encode returns the same bytes", hexs(bz), hexs(back)), false
		}
		var reused types.BurnMessage
		if _, err := reused.Parse(bytes.Repeat([]byte{0xa5}, 132)); err == nil {
			if rm2, err := reused.Parse(append([]byte{}, bz...)); err != nil {
				return viol("C16", 0, "decoding into a burn-message value that decoded another one before", "value", err), false
			} else if b2, err := rm2.Bytes(); err != nil || !eq(b2, bz) {
				return viol("C16", 0, "burn message: decode (into a value that decoded another one before) then encode returns the same bytes", hexs(bz), hexs(b2)), false
			}
		}
		nt = rm.Version != 0 && nonzero(rm.BurnToken) && nonzero(rm.MintRecip) && rm.Amount.Sign() != 0 && nonzero(rm.MsgSender)
		return nil, nt
	case "burn-encode":
		amt, _ := new(big.Int).SetString(c.Amount, 10)
		m := types.BurnMessage{Version: c.Version, BurnToken: unhex(c.F1), MintRecipient: unhex(c.F2), Amount: sim.Int(amt), MessageSender: unhex(c.F3)}
		var ib []byte
		var ierr error
		if p := safely(func() { ib, ierr = m.Bytes() }); p != nil {
			return viol("C16", 0, "burn-message encoder panicked", "error or bytes", p), false
		}
		rb, rerr := refcodec.EncodeBurn(&refcodec.Burn{Version: c.Version, BurnToken: unhex(c.F1), MintRecip: unhex(c.F2), Amount: amt, MsgSender: unhex(c.F3)})
		if (ierr == nil) != (rerr == nil) {
			return viol("C16", 0, fmt.Sprintf("burn-message encoder accepts/rejects field sizes %d/%d/%d", len(m.BurnToken), len(m.MintRecipient), len(m.MessageSender)), fmt.Sprintf("accept=%v", rerr == nil), fmt.Sprintf("accept=%v", ierr == nil)), false
		}
		if rerr != nil {
			return nil, false
		}
		if !eq(ib, rb) {
			return viol("C16", 0, "encoded burn message vs the CCTP layout", hexs(rb), hexs(ib)), false
		}
		if v := retain(ib); v != nil {
			return v, false
		}
		back, err := new(types.BurnMessage).Parse(ib)
		if err != nil {
			return viol("C16", 0, "decoding an encoded burn message", "value", err), false
		}
		if back.Version != m.Version || !eq(back.BurnToken, m.BurnToken) || !eq(back.MintRecipient, m.MintRecipient) || back.Amount.IsNil() || back.Amount.BigInt().Cmp(amt) != 0 || !eq(back.MessageSender, m.MessageSender) {
			return viol("C16", 0, "burn message: encode then decode returns the same value", fmt.Sprint(m), fmt.Sprint(*back)), false
		}
		nt = c.Version != 0 && nonzero(m.BurnToken) && nonzero(m.MintRecipient) && amt.Sign() != 0 && nonzero(m.MessageSender)
		return nil, nt
	}
	panic("unknown c16 case " + c.What)
}

func genBytesLen(t *rapid.T, label string, lens []int, max int) []byte {
	var n int
	if rapid.IntRange(0, 9).Draw(t, label+"/k") < 6 {
		n = rapid.SampledFrom(lens).Draw(t, label+"/len")
	} else {
		n = rapid.IntRange(0, max).Draw(t, label+"/len")
	}
	b := rapid.SliceOfN(rapid.Byte(), n, n).Draw(t, label)
	if rapid.IntRange(0, 3).Draw(t, label+"/dense") == 0 {
		for i := range b {
			if b[i] == 0 {
				b[i] = byte(i%251 + 1)
			}
		}
	}
	return b
}

func genField(t *rapid.T, label string) []byte {
	n := 32
	if rapid.IntRange(0, 9).Draw(t, label+"/badlen") == 0 {
		n = rapid.SampledFrom([]int{0, 1, 20, 31, 33, 64}).Draw(t, label+"/len")
	}
	b := rapid.SliceOfN(rapid.Byte(), n, n).Draw(t, label)
	if rapid.Bool().Draw(t, label+"/dense") {
		for i := range b {
			if b[i] == 0 {
				b[i] = 0xa5
			}
		}
	}
	return b
}

var u32s = []uint32{0, 1, 4, 255, 256, 1 << 16, 1 << 24, 1 << 31, 1<<32 - 1, 0x01020304}
var u64s = []uint64{0, 1, 255, 256, 1<<32 - 1, 1 << 32, 1 << 63, 1<<64 - 1, 0x0102030405060708}

func genU32(t *rapid.T, label string) uint32 {
	if rapid.Bool().Draw(t, label+"/h") {
		return rapid.SampledFrom(u32s).Draw(t, label)
	}
	return rapid.Uint32().Draw(t, label)
}

func genC16(t *rapid.T) c16case {
	switch rapid.IntRange(0, 3).Draw(t, "what") {
	case 0:
		return c16case{What: "msg-decode", Hex: hex.EncodeToString(genBytesLen(t, "bz", []int{0, 1, 115, 116, 117, 116 + 131, 116 + 132, 116 + 133, 300}, 600))}
	case 1:
		n := rapid.SampledFrom(u64s).Draw(t, "nonce")
		if rapid.Bool().Draw(t, "nonce/r") {
			n = rapid.Uint64().Draw(t, "nonce/v")
		}
		return c16case{What: "msg-encode", Version: genU32(t, "version"), Source: genU32(t, "source"), Dest: genU32(t, "dest"), Nonce: n,
			F1: hex.EncodeToString(genField(t, "sender")), F2: hex.EncodeToString(genField(t, "recipient")), F3: hex.EncodeToString(genField(t, "caller")),
			Body: hex.EncodeToString(genBytesLen(t, "body", []int{0, 1, 131, 132, 133}, 400))}
	case 2:
		return c16case{What: "burn-decode", Hex: hex.EncodeToString(genBytesLen(t, "bz", []int{0, 131, 132, 132, 132, 132, 133, 264}, 300))}
	default:
		amts := []*big.Int{big.NewInt(0), big.NewInt(1), big.NewInt(255), big.NewInt(256), new(big.Int).Sub(sim.Two64, big.NewInt(1)), sim.Two64, sim.Two128, sim.Two255, sim.Max256}
		amt := rapid.SampledFrom(amts).Draw(t, "amount")
		if rapid.Bool().Draw(t, "amount/r") {
			amt = new(big.Int).SetBytes(rapid.SliceOfN(rapid.Byte(), 0, 32).Draw(t, "amount/bytes"))
		}
		return c16case{What: "burn-encode", Version: genU32(t, "version"), F1: hex.EncodeToString(genField(t, "token")), F2: hex.EncodeToString(genField(t, "mintrecipient")),
			F3: hex.EncodeToString(genField(t, "msgsender")), Amount: amt.String()}
	}
}

// c16prelude: hand-built vectors, one per class.
func c16prelude() []c16case {
	f := func(b byte) string { return hex.EncodeToString(append(make([]byte, 31), b)) }
	full := "01020304" + "05060708" + "090a0b0c" + "0d0e0f1011121314" + hex.EncodeToString(seqBytes(0x20, 32)) + hex.EncodeToString(seqBytes(0x40, 32)) + hex.EncodeToString(seqBytes(0x60, 32)) + "deadbeef"
	return []c16case{
		{What: "msg-decode", Hex: full},
		{What: "msg-decode", Hex: full[:230]},
		{What: "msg-decode", Hex: ""},
		{What: "msg-encode", Version: 1, Source: 2, Dest: 3, Nonce: 0x0102030405060708, F1: f(1), F2: f(2), F3: f(3), Body: "aa"},
		{What: "msg-encode", Version: 1, Source: 2, Dest: 3, Nonce: 4, F1: f(1)[2:], F2: f(2), F3: f(3), Body: "aa"},
		{What: "burn-decode", Hex: "00000001" + hex.EncodeToString(seqBytes(1, 32)) + hex.EncodeToString(seqBytes(0x30, 32)) + hex.EncodeToString(seqBytes(0x50, 32)) + hex.EncodeToString(seqBytes(0x70, 32))},
		{What: "burn-decode", Hex: hex.EncodeToString(make([]byte, 131))},
		{What: "burn-encode", Version: 7, F1: f(1), F2: f(2), F3: f(3), Amount: sim.Max256.String()},
		{What: "burn-encode", Version: 7, F1: f(1), F2: f(2) + "00", F3: f(3), Amount: "5"},
	}
}

func seqBytes(start byte, n int) []byte {
	b := make([]byte, n)
	for i := range b {
		b[i] = start + byte(i)
	}
	return b
}

func RunC16(t *testing.T) {
	st := newStats("C16")
	defer st.Write()
	run := func(c c16case, cls string) *Viol {
		v, nt := c16check(c)
		if v != nil {
			return v
		}
		key := ""
		if nt {
			key = fmt.Sprint(c)
		}
		cc := c
		st.Case(key, func() any { return cc }, c.What, cls)
		return nil
	}
	for _, c := range c16prelude() {
		if v := run(c, "prelude"); v != nil {
			saveFail("C16", "c16", c, v)
			t.Fatalf("VIOLATION %s", v)
		}
	}
	rapid.Check(t, func(rt *rapid.T) {
		c := genC16(rt)
		if v := run(c, "random"); v != nil {
			saveFail("C16", "c16", c, v)
			rt.Fatalf("VIOLATION %s", v)
		}
	})
	if !t.Failed() {
		st.Healthy(t, "msg-decode", "msg-encode", "burn-decode", "burn-encode")
	}
}

func init() {
	replayers["c16"] = func(raw []byte) *Viol {
		var c c16case
		mustJSON(raw, &c)
		v, _ := c16check(c)
		return v
	}
}

// Native fuzz targets (thorough tier): the same oracle inside the target.
func fuzzMessageCodec(f *testing.F) {
	for _, c := range c16prelude() {
		if c.What == "msg-decode" {
			b, _ := hex.DecodeString(c.Hex)
			f.Add(b)
		}
	}
	f.Add(make([]byte, 116))
	f.Fuzz(func(t *testing.T, bz []byte) {
		if v, _ := c16check(c16case{What: "msg-decode", Hex: hex.EncodeToString(bz)}); v != nil {
			t.Fatalf("VIOLATION %s", v)
		}
		if len(bz) >= 4+4+4+8+3 {
			// structured reading of the same bytes: encode direction with arbitrary field sizes
			n := func(i int) int { return int(bz[i]) % 40 }
			rest := bz[23:]
			take := func(k int) []byte {
				if k > len(rest) {
					k = len(rest)
				}
				out := rest[:k]
				rest = rest[k:]
				return out
			}
			c := c16case{What: "msg-encode", Version: uint32(bz[0])<<24 | uint32(bz[3]), Source: uint32(bz[4]), Dest: uint32(bz[8])<<16 | uint32(bz[9]),
				Nonce: uint64(bz[12])<<56 | uint64(bz[19])}
			c.F1, c.F2, c.F3 = hex.EncodeToString(take(n(20))), hex.EncodeToString(take(n(21))), hex.EncodeToString(take(n(22)))
			c.Body = hex.EncodeToString(rest)
			if v, _ := c16check(c); v != nil {
				t.Fatalf("VIOLATION %s", v)
			}
		}
	})
}

func fuzzBurnCodec(f *testing.F) {
	f.Add(make([]byte, 132))
	f.Add(seqBytes(1, 132))
	f.Add(seqBytes(1, 131))
	f.Fuzz(func(t *testing.T, bz []byte) {
		if v, _ := c16check(c16case{What: "burn-decode", Hex: hex.EncodeToString(bz)}); v != nil {
			t.Fatalf("VIOLATION %s", v)
		}
	})
}
