# Per-property budgets, non-triviality rules and levels for ./check.
# rapid: (test name, cases per shard, shards); plain: tests run once; fuzz: (target, seconds).

ASSUMPTIONS = [
    "A1 the `from` field is the authenticated signer (no ante handler in the harness chain)",
    "the real cosmos-sdk v0.50.7 BaseApp/IAVL pipeline executes and rolls back transactions; x/bank and fiat-token-factory are replaced by a stateful model ledger written from their source",
    "reference codec, reference attestation verifier (decred secp256k1 recovery, x/crypto Keccak) and reference model are correct (self-tested, cross-checked)",
]

CONF = {
    "C07": {
        "rule": "rapid-generated L2 histories (4..30 transactions over sends, sends-with-caller, deposits, deposits-with-caller, both replacements, multi-message transactions, receives and admin actions, from starting counters {0,1,2^32-1,2^32,2^63,2^64-100}); non-trivial = >=3 successful producers of >=2 types with >=1 failed transaction and >=1 successful replacement; distinct by (start, sequence of op labels and outcomes)",
        "quick": {"rapid": [("TestC07", 500, 1)]},
        "thorough": {"rapid": [("TestC07", 3000, 16)]},
    },
}

ALL = ["C%02d" % i for i in range(1, 21)]

MANIFEST_TEXT = {
    "C07": {
        "technique": "model-based stateful property-based testing (rapid) on the real BaseApp pipeline: model counter vs decoded MessageSent nonces, responses and the query after every transaction",
        "level": "Exploration: generated transaction histories on the real SDK pipeline, every step compared with an independent counter model; search, not proof.",
        "note": "Trusts cosmos-sdk rollback, the reference codec and the model ledger; counters never cross 2^64 within a history (D4).",
        "ref": "DESIGN.md section 3 C07",
    },
}

_NOT_YET = "check not built yet in this round (planned in DESIGN.md section 3); not claimed until it runs"
NOT_APPLICABLE = [{"property_id": p, "reason": _NOT_YET} for p in ALL if p not in CONF]
