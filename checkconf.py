# Per-property budgets, non-triviality rules and levels for ./check.
# rapid: (test name, cases per shard, shards); plain: tests run once; fuzz: (target, seconds).

ASSUMPTIONS = [
    "A1 the `from` field is the authenticated signer (no ante handler in the harness chain)",
    "the real cosmos-sdk v0.50.7 BaseApp/IAVL pipeline executes and rolls back transactions; x/bank and fiat-token-factory are replaced by a stateful model ledger written from their source",
    "reference codec, reference attestation verifier (decred secp256k1 recovery, x/crypto Keccak) and reference model are correct (self-tested, cross-checked)",
]

CONF = {
    "C18": {
        "rule": "rapid-generated histories (4..14 blocks of 1..4 transactions over all flows and admin types, ledger changes and injected faults, from genesis states with >=3 entries per registry); the raw transaction bytes of the generating run are recorded and replayed on fresh chain instances: twice sequentially, once after an unrelated history ran in the same process, three times concurrently on goroutines next to instances replaying another history, and (TestC18Proc) in a second OS process with GOMAXPROCS=1, another TZ/LANG and working directory; oracle: per-block store root hash (real rootmulti Commit), per-transaction code/log/events/response data, exported genesis, all 19 query responses and the raw KV dump are byte-identical across all replays and agree with the generating run; thorough runs under the race detector; non-trivial = history with >=10 successful transactions of >=4 kinds; distinct by op/outcome sequence",
        "quick": {"rapid": [("TestC18", 100, 2), ("TestC18Proc", 30, 2)]},
        "thorough": {"rapid": [("TestC18", 400, 12), ("TestC18Proc", 200, 4)], "race": True},
    },
    "C20": {
        "rule": "rapid cases: a state reached from a regular genesis by 0..6 generated transactions, or (1/3) from a hostile genesis accepted by validation and initialisation (thresholds incl. 66076420 and 2^32-1, empty roles, odd-length registry entries), then 1..12 hostile inputs: (a/b) a valid message of one of the 25 types (all required per run) marshalled to the wire and mutated in <=2 fields with protowire (field dropped = absent amount/byte field, duplicated, truncated, retyped, hostile content: empty/short/long/10 kB/non-UTF-8/fold-alike strings, malformed from), executed through the real transaction pipeline (L2) or decoded and handed straight to the handler (L1, for inputs the transaction decoder would stop); (c) all 19 queries with mutated requests, hostile pagination (key+offset, huge limit/offset, reverse+key) and nil requests; (d) byte strings into both decoders; (e) CLI address strings (short, non-ASCII, non-base58, arbitrary unicode). Oracle: no panic (recover at L1/L0, SDK panic code 111222 at L2/queries). non-trivial = message/query input derived from a valid request by <=2 hostile changes; distinct by (kind, type, bytes)",
        "quick": {"rapid": [("TestC20", 1200, 2)]},
        "thorough": {"rapid": [("TestC20", 8000, 16)], "fuzz": [("FuzzWireMsg", 120), ("FuzzQuery", 90), ("FuzzCLIAddress", 60)]},
    },
    "C17": {
        "rule": "(i)+(iii) rapid-generated genesis values through the module's real JSON path (AppModuleBasic.ValidateGenesis, AppModule.InitGenesis/ExportGenesis): five keyed lists of size 0..8 with deliberately colliding keys in 1/3 of cases (same key, different payload), odd attester strings, denoms differing in case, tokens/addresses of any length, optional fields present/absent, empty roles, hostile scalars; oracle: validation must reject every genesis whose lists collide under the documented keys; for accepted+initialised ones export(init(g)) = g with documented defaults, lists as multisets. (ii) rapid histories (3..30 ops) on the real chain; at every 5th step and at the end export -> import into an empty chain -> raw key/value dump must be identical. non-trivial = genesis with a collision or a round-tripped genesis with non-empty registries, resp. history whose final state has used nonces, pairs and a moved counter or a pending owner; distinct by genesis JSON resp. op sequence. The listed known finding (pending owner has no genesis field) is matched by its exact signature, counted in excluded_known and the search continues behind it.",
        "quick": {"rapid": [("TestC17Genesis", 1500, 2), ("TestC17", 200, 2)]},
        "thorough": {"rapid": [("TestC17Genesis", 20000, 8), ("TestC17", 1500, 8)], "fuzz": [("FuzzGenesisJSON", 120)]},
    },
    "C01": {
        "rule": "L0: rapid-generated (configuration, message, attestation plan) triples for the exported verifier: 1..8 (sometimes 16) enabled keys under six hex spellings plus decoys (garbage, compressed key, 64-byte key, second spelling, empty), threshold 1..entries, message 0..400 random bytes or well-formed, plan slots (signer enabled/disabled/never enabled; payload exact/bit-flipped/prefix/unrelated; v 0/1, 27/28 or raw; high-s twin), arrangement asc/desc/permutation, duplicate (same bytes, twin, respelled v), length edits (-k/+k bytes, one extra valid signature, one fewer), raw random bytes of length 65t, bit mutations of built attestations; oracle: ground truth by construction cross-checked against an independent reference verifier (decred recovery, x/crypto Keccak), enforced both ways (accept => reference accepts and >= t distinct enabled signers; reference accepts with canonical v => accept). L2: the same plans through receive-message and replace-message on the real chain with attesters and threshold moved by real transactions, including submissions signed before a rotation. non-trivial = attestation of exactly 65t bytes containing at least one individually valid signature of an enabled attester over the exact message; distinct by (plan, threshold, set size, spellings)",
        "quick": {"rapid": [("TestC01", 4000, 2), ("TestC01L2", 300, 2)]},
        "thorough": {"rapid": [("TestC01", 20000, 12), ("TestC01L2", 1500, 4)], "fuzz": [("FuzzAttestation", 120)]},
    },
    "C16": {
        "rule": "rapid-generated codec cases of four kinds (message decode, message encode, burn decode, burn encode): byte strings of length 0..600 biased to 0,1,115,116,117,116+131..133 resp. 131,132,133; field values from hostile integer sets and random, field sizes 32 and {0,1,20,31,33,64}; amounts {0,1,2^64-1,2^64,2^128,2^255,2^256-1,random}; oracle: differential against the independent reference codec (accept/reject, every field, exact bytes) plus decode-encode and encode-decode round-trips; non-trivial = accepted case with a non-zero byte in every field; distinct by case content. Thorough adds native coverage-guided fuzzing of both decoders with the same oracle inside the target.",
        "quick": {"rapid": [("TestC16", 100000, 1)]},
        "thorough": {"rapid": [("TestC16", 400000, 16)], "fuzz": [("FuzzMessageCodec", 60), ("FuzzBurnCodec", 60)]},
    },
    "C14": {
        "level": "fault_enumeration",
        "rule": "rapid histories of 2..7 rounds: configuration moves (send-side pause, max body size around 132, zero-address messenger, mint/burn pause, ledger pause/blacklist/allowance/minter) then a transfer under test (valid deposit of either variant, possibly with a 31/33-byte caller; valid module-addressed receive; deposit+receive in one transaction); its dependency calls are counted in a dry run on a discarded branch and EVERY non-empty subset of those calls (<=3 calls, <=7 subsets) is failed in turn, each as its own transaction through the real SDK pipeline, followed by the unfaulted transaction; oracle: any failed dependency call or late validation failure => error, and after the real rollback raw KV of both stores and the block's event list are as before; success => debit, burn and message (resp. mint) all effective; non-trivial = failure that hit after something was already moved or marked (effective earlier call, or nonce write); distinct by (case shape, op, fault subset, failure kind)",
        "quick": {"rapid": [("TestC14", 300, 2)]},
        "thorough": {"rapid": [("TestC14", 8000, 16)]},
    },
    "C15": {
        "rule": "rapid histories (5..35 ops) over all 25 transaction types (success and failure of each is required in every run), ledger changes, faults, multi-message transactions; a recording wrapper around the KVStoreService handed to the keeper logs every Set/Delete key per transaction; oracle: recorded keys and committed key diff of a successful transaction are inside the documented write set for that type and argument, failed transactions leave both stores byte-identical, all 19 queries and genesis export record no write; non-trivial = first success (or failure) of a transaction type within a case; distinct by (case shape, type, outcome)",
        "quick": {"rapid": [("TestC15", 150, 6)]},
        "thorough": {"rapid": [("TestC15", 5000, 16)], "cover": ("TestC15", 1500)},
    },
    "C19": {
        "rule": "rapid histories (4..28 ops) of registry transactions over colliding-prone keys (same token under other domains, tokens one byte apart, denoms differing in case, attester spellings of one key) from genesis states with >=3 entries per registry; after every transaction: exported registries vs reference maps, single-item queries for every live entry (token pairs under 6 hex spellings) and for every named-but-absent key, all scalar queries; every 4th step: pagination sweeps of the five list queries for every page size 1..n+1 in key-cursor mode (with and without count_total) and offset mode, forward and reverse, total with count_total; plus one deterministic sweep over registries of 1003..1207 entries with page sizes around 100, 1000, the registry size and 'everything' (TestC19Big); non-trivial = case with a removal, a registry of >=3 entries and a sweep; distinct by op/outcome sequence",
        "quick": {"rapid": [("TestC19", 100, 4)], "plain": ["TestC19Big"]},
        "thorough": {"rapid": [("TestC19", 1500, 16)], "plain": ["TestC19Big"]},
    },
    "C10": {
        "rule": "(a) bounded-exhaustive: all 4^4 assignments of owner/attester-manager/pauser/token-controller over 4 accounts x pending owner in {absent, each account} x 18 privileged types (valid arguments) x 4 submitters, each run through the real message router on a branch of the committed state that is diffed and discarded; oracle: success <=> submitter holds the matching role, failure => no store changed; the same enumeration a second time over four accounts whose addresses have 20, 32, 32 and 21 bytes and agree in their first 20 bytes (TestC10EnumOdd); (b) rapid histories of role changes and privileged actions over a 7-account universe (previous holders arise naturally); non-trivial = submitter is authorised, or holds another role, or is a previous holder; distinct by (roles, pending, type, submitter) resp. (class, type, submitter)",
        "quick": {"rapid": [("TestC10", 300, 2)], "plain": ["TestC10Enum", "TestC10EnumOdd"]},
        "thorough": {"rapid": [("TestC10", 10000, 16)], "plain": ["TestC10Enum", "TestC10EnumOdd"]},
        "exhaustive_note": "enumeration part is complete for the stated bound",
    },
    "C11": {
        "rule": "(a) rapid histories (4..30 ops) of role transactions by all accounts with new-holder strings {universe account, fresh valid, upper-case bech32, wrong prefix, bad checksum, empty, long, non-ASCII} interleaved with all other transaction types; lifecycle automaton vs exported roles and pending-owner slot after every transaction; (b) bounded-exhaustive closure: all 324 role states over 3 accounts x every role action by every account, and once more over three accounts whose 20/32/32-byte addresses agree in their first 20 bytes; non-trivial = history with a supersession, an accept after the slot was cleared, or an accept attempt by the current owner",
        "quick": {"rapid": [("TestC11", 500, 2)], "plain": ["TestC11Closure", "TestC11ClosureOdd"]},
        "thorough": {"rapid": [("TestC11", 8000, 16)], "plain": ["TestC11Closure", "TestC11ClosureOdd"]},
    },
    "C12": {
        "rule": "rapid histories (4..30 ops): flag states installed by genesis (all four) and moved by pause/unpause transactions of all accounts; the eight user-facing flows with otherwise valid generated inputs; all 18 admin actions; table oracle (S/R blocks all eight; B/M blocks deposit, deposit-with-caller, replace-deposit, module receive only) in both directions, flag queries after every transaction; all 32 cells must be visited in every run; non-trivial = (flag state, flow, outcome) cell; distinct by cell",
        "quick": {"rapid": [("TestC12", 400, 2)]},
        "thorough": {"rapid": [("TestC12", 6000, 16)]},
    },
    "C13": {
        "rule": "(a) closure by enumeration: every non-empty subset of a 4-key universe x threshold 1..n as genesis, every action (enable k, disable k, update 0..5, by manager and by a non-manager) through the real router, successors added until closed; reference transition function + invariant; (b) rapid histories (4..40 ops) over 8 keys x 6 spellings with decoys; non-trivial = transition on a boundary (n=t, n=1, t'=n, t'=n+1, t'=t, duplicate enable, unknown disable)",
        "quick": {"rapid": [("TestC13", 300, 2)], "plain": ["TestC13Closure"]},
        "thorough": {"rapid": [("TestC13", 8000, 16)], "plain": ["TestC13Closure"]},
    },
    "C04": {
        "rule": "rapid-generated L2 histories (3..30 ops mixing receives, replays, sends, deposits, both replacements, all 18 admin types, ledger changes, multi-message transactions, injected mint faults); amounts from {1,2^64-1,2^64,2^64+1,2^128,2^255,2^256-1,random}, recipients zero-padded / high bytes non-zero / equal to sender; pairs linked by transaction and through genesis with upper-case local token; both ledger denom modes; oracle: ledger call log + typed events vs the independently decoded message, running total minted vs sum of accepted burn messages; non-trivial = accepted burn message with amount >= 2^64 or recipient high bytes non-zero or recipient != sender; distinct by (amount, recipient, sender)",
        "quick": {"rapid": [("TestC04", 400, 2)]},
        "thorough": {"rapid": [("TestC04", 8000, 16)]},
    },
    "C05": {
        "rule": "rapid-generated L2 histories (4..30 ops of deposits (both variants), sends, both replacements, receives, admin and ledger changes, faults, multi-message transactions; module account pre-funded in 1/4 of cases); oracle: per deposit exactly [transfer depositor->module, burn] of the stated coin and a module-sender message stating that amount; history: burned total = sum over distinct module-sender nonces, only depositors debited, module balance constant, other messages carry the submitter as sender; non-trivial = >=2 successful deposits by different depositors and >=1 replacement or failed deposit; distinct by op/outcome sequence",
        "quick": {"rapid": [("TestC05", 400, 2)]},
        "thorough": {"rapid": [("TestC05", 8000, 16)]},
    },
    "C06": {
        "rule": "rapid-generated requests inside L2 histories (1..20 ops: sends, sends-with-caller, deposits, replacements of earlier messages; body lengths 0..max incl. boundaries; hostile 32-byte values); oracle: MessageSent bytes decoded by the reference codec vs the request, DepositForBurn event vs request/decoded message/original deposit's event; non-trivial = emitted message with non-zero caller or body >= 117 bytes or a deposit; distinct by emitted bytes",
        "quick": {"rapid": [("TestC06", 500, 2)]},
        "thorough": {"rapid": [("TestC06", 10000, 16)]},
    },
    "C09": {
        "rule": "rapid-generated replacement attempts inside L2 histories (originals: own, someone else's, foreign-domain, any sent, forged own, forged module-sender, user-sent burn, short, own with tampered attestation; attester rotation and pausing in between); oracle: on success every required condition recomputed independently (reference verifier under current attesters), decoded replacement vs decoded original, empty write set / ledger log / store diff; non-trivial = successful replacement or rejection with exactly one required condition false; distinct by emitted bytes resp. (false condition, original class)",
        "quick": {"rapid": [("TestC09", 400, 4)]},
        "thorough": {"rapid": [("TestC09", 10000, 16)]},
    },
    "C02": {
        "rule": "rapid-generated L2 histories (3..30 ops: fresh receives with 0..4 broken conditions, replays of earlier successes varying body/recipient/caller/attestation encoding/submitter/sender, pause, attester rotation, threshold change, un/re-link, messenger add/remove, multi-message transactions; genesis may pre-list pairs); after every transaction the single-item query of every tracked pair and its neighbours (swapped, +1, shifted), the full list query and the exported list are compared with the model set; one deterministic case with 1207 used pairs walks the listing with page sizes around 100, 1000, 1207 and 'everything' (TestC02Big); non-trivial = history with a replay that is valid in every respect except the nonce of an earlier success; distinct by sequence of op labels and outcomes",
        "quick": {"rapid": [("TestC02", 200, 3)], "plain": ["TestC02Big"]},
        "thorough": {"rapid": [("TestC02", 2500, 16)], "plain": ["TestC02Big"]},
    },
    "C03": {
        "rule": "rapid-generated receive attempts (a) bounded-exhaustive: all 2^12 subsets of {P1,P2,P4,P5,P6,P7,M1..M6} x 4 value realisations for module-addressed messages, all 2^6 subsets of the P conditions x 4 for other recipients, all 116 header truncations, each through the real message router on a discarded branch (success <=> empty subset; failure => no store changed); (b) inside L2 histories (admin/ledger ops change pause flags, attesters, pairs, messengers, allowance, blacklist, minter status); each attempt falsifies a drawn subset of {P2..P7,M2..M6} with several realisations per condition and P1/M1/M6 through state; oracle: success <=> all applicable conditions (recomputed from bytes and model state, attestation by the independent verifier); non-trivial = attempt with a >=116-byte message whose condition vector was not seen before in the case; distinct by condition vector",
        "quick": {"rapid": [("TestC03", 400, 4)], "plain": ["TestC03Enum"]},
        "thorough": {"rapid": [("TestC03", 8000, 16)], "plain": ["TestC03Enum"]},
    },
    "C08": {
        "rule": "(a) bounded-exhaustive: all 2^11 subsets of the eleven preconditions x 4 value realisations (with-caller variant; dependency failures by injected faults, empty balance and blacklist) through the real message router on a discarded branch; (b) rapid-generated deposits (both variants) inside L2 histories that move limits, max body size (131/132/133), messengers, pause flags, ledger pause/blacklist/minter/allowance and inject dependency faults; amounts from {-1,0,1,limit-1,limit,limit+1,2^64..2^256-1}; oracle: success <=> conjunction of the documented preconditions; non-trivial = amount within 1 of a configured limit, or max body size within 1 of 132, or >=2 preconditions false; distinct by (condition vector, amount, max body size)",
        "quick": {"rapid": [("TestC08", 500, 2)], "plain": ["TestC08Enum"]},
        "thorough": {"rapid": [("TestC08", 20000, 16)], "plain": ["TestC08Enum"]},
    },
    "C07": {
        "rule": "rapid-generated L2 histories (4..30 transactions over sends, sends-with-caller, deposits, deposits-with-caller, both replacements, multi-message transactions, receives and admin actions, from starting counters {0,1,2^32-1,2^32,2^63,2^64-100}); non-trivial = >=3 successful producers of >=2 types with >=1 failed transaction and >=1 successful replacement; distinct by (start, sequence of op labels and outcomes)",
        "quick": {"rapid": [("TestC07", 400, 2)]},
        "thorough": {"rapid": [("TestC07", 10000, 16)]},
    },
}

ALL = ["C%02d" % i for i in range(1, 21)]

MANIFEST_TEXT = {
    "C18": {
        "technique": "differential / metamorphic replay testing over rapid-generated histories: fresh instances, after unrelated histories, concurrently on goroutines, in a second OS process with a different environment, with the decoded transaction objects shared between simulation, delivery and a second instance, under per-transaction gas limits, without the rolled-back transactions; repeated validation of the same genesis documents; thorough tier under the Go race detector",
        "level": "Exploration: a nondeterminism or hidden shared state must show in root hash, responses, events, export or queries of some replay. The static-scan clause of the property is not decided (DESIGN.md section 6); Go scheduling is not controlled.",
        "note": "Panic logs (stack traces) are masked in the digest; sdk address cache switched off; bech32 prefix fixed per process.",
        "ref": "DESIGN.md section 3 C18",
    },
    "C20": {
        "technique": "structured fuzzing / PBT (rapid): wire-level mutation of valid messages and queries with protowire, executed through the real BaseApp pipeline and directly against handlers with recover(), in generated and hostile-genesis states; native go fuzz targets for wire messages, queries and CLI strings (thorough)",
        "level": "Exploration; oracle is absence of panic only. One known finding (cosmos-sdk query.Paginate panics on reverse+key pagination) is reported as KNOWN-FINDING and excluded by exact signature.",
        "note": "Hook: cli.ParseAddress exported under build tag verif.",
        "ref": "DESIGN.md section 3 C20",
    },
    "C17": {
        "technique": "property-based testing (rapid) of genesis round-trips through the module's real JSON path with a collision model as validation oracle; export/import of states reached by generated histories compared on raw KV; native go fuzzing of genesis JSON (thorough)",
        "level": "Exploration over generated genesis values and reached states. One known finding (pending owner not exported) is reported as KNOWN-FINDING and excluded by exact signature.",
        "note": "Documented keys of the five lists: attester string, denom, (domain, token bytes), (domain, nonce), domain.",
        "ref": "DESIGN.md section 3 C17",
    },
    "C01": {
        "technique": "property-based testing (rapid) with constructed ground truth and an independent reference attestation verifier as differential oracle, at the exported verifier and through receive/replace on the real chain; native go fuzzing of attestation bytes (thorough)",
        "level": "Exploration over generated configurations, messages and adversarial attestation plans; both directions of the statement.",
        "note": "Cryptographic soundness of secp256k1/Keccak-256 assumed; go-ethereum (cgo libsecp256k1) vs decred (pure Go) recovery are independent implementations.",
        "ref": "DESIGN.md section 3 C01",
    },
    "C16": {
        "technique": "differential property-based testing (rapid) of the message/burn-message codecs against an independent reference codec written from the CCTP layout, with round-trip laws; native go fuzzing with the same oracle (thorough)",
        "level": "Exploration over generated byte strings and field values; layout judged by an independent implementation pinned by hand-computed vectors.",
        "note": "Trusted: the reference codec (harness/refcodec, self-tested).",
        "ref": "DESIGN.md section 3 C16",
    },
    "C14": {
        "technique": "fault injection enumerated over every non-empty subset of the dependency calls of each transfer (counted by dry run), at generated points of generated histories (rapid), with state/ledger/event comparison after the SDK's real rollback",
        "level": "Fault enumeration: complete over subsets of the (<=3) dependency calls per transaction under test; histories and configurations are sampled.",
        "note": "Rollback itself is cosmos-sdk's (runTx/cacheTxContext); the check decides that the module always asks for it and nothing escapes it.",
        "ref": "DESIGN.md section 3 C14",
    },
    "C15": {
        "technique": "stateful PBT (rapid) with a write-set recorder wrapped around the keeper's store service: recorded keys and committed diffs vs the documented write set per transaction type; queries/export must record nothing",
        "level": "Exploration over generated inputs and states; every transaction type must succeed and fail at least once per run. The 'statically for every code path' clause is not decided (DESIGN.md section 6).",
        "note": "Documented write sets are built with the module's exported key helpers (layout changes must not alarm here).",
        "ref": "DESIGN.md section 3 C15",
    },
    "C19": {
        "technique": "model-based stateful PBT (rapid): five reference maps maintained from transaction outcomes vs single-item, paginated (all page sizes, both modes, both directions, with and without count_total) and scalar queries through the real gRPC query router; one deterministic pagination sweep over registries of more than a thousand entries",
        "level": "Exploration: generated registry histories with collision-prone keys; full pagination sweeps at checkpoints.",
        "note": "`0X`-prefixed token hex in the token-pair query is generated nowhere and not judged.",
        "ref": "DESIGN.md section 3 C19",
    },
    "C10": {
        "technique": "bounded-exhaustive enumeration (256 role assignments x 5 pending values x 18 types x 4 submitters) through the real message router with full store diff, run over ordinary accounts and over a family of 20/32/32/21-byte addresses with a common 20-byte prefix, plus model-based stateful PBT (rapid) over role-change histories",
        "level": "Exploration, exhaustive for the stated finite bound (4 accounts), sampled beyond it.",
        "note": "A1 submitter = `from`; role slots installed through genesis, pending owner by a real UpdateOwner.",
        "ref": "DESIGN.md section 3 C10",
    },
    "C11": {
        "technique": "model-based stateful PBT (rapid) against the ownership lifecycle automaton, plus bounded-exhaustive closure of the role-state graph over 3 accounts",
        "level": "Exploration; the closure is exhaustive over 324 states x all role actions.",
        "note": "D6: 'syntactically valid address' = accepted by sdk.AccAddressFromBech32.",
        "ref": "DESIGN.md section 3 C11",
    },
    "C12": {
        "technique": "model-based stateful PBT (rapid) with a blocking-table oracle over the 4x8 flag/flow matrix (every cell required in every run), flag queries after every transaction",
        "level": "Exploration: all 32 cells visited per run with generated valid inputs, both directions, plus pause/unpause histories.",
        "note": "Replacement flows may use attested forged originals (A3 lifted) when the chain could not emit one.",
        "ref": "DESIGN.md section 3 C12",
    },
    "C13": {
        "technique": "closure by enumeration of the attester/threshold state graph (4-key universe) against a reference transition function, plus model-based stateful PBT (rapid) with spelling variants",
        "level": "Exploration; exhaustive and closed for the 4-key universe.",
        "note": "Counts attester entries as the statement does (two spellings of a key are two entries).",
        "ref": "DESIGN.md section 3 C13",
    },
    "C04": {
        "technique": "model-based stateful PBT (rapid): ledger call log and typed events of every transaction compared with the independently decoded burn message; running-total invariant over histories",
        "level": "Exploration: generated histories with hostile amounts/recipients/denoms; every mint request and event field compared with an independent decoding; conservation invariant after every transaction.",
        "note": "x/bank and fiat-token-factory are the model ledger (both denom-case modes).",
        "ref": "DESIGN.md section 3 C04",
    },
    "C05": {
        "technique": "model-based stateful PBT (rapid): ledger call log, balances, supply and decoded MessageSent events vs per-deposit and whole-history conservation invariants",
        "level": "Exploration: generated histories incl. pre-funded module account, failures and replacements; per-transaction equalities and sums over histories.",
        "note": "A2 nobody submits as the module account; A3 attesters sign only messages really emitted.",
        "ref": "DESIGN.md section 3 C05",
    },
    "C06": {
        "technique": "property-based testing (rapid) with an independent reference decoder as oracle: emitted MessageSent/DepositForBurn content vs the request, replacement event vs original event",
        "level": "Exploration: generated requests at every point of generated histories; byte-exact comparison through an independent codec.",
        "note": "D1 canonical 20-byte submitters (as the quantifier says); the 'same burn token' clause is judged for every spelling (found F10).",
        "ref": "DESIGN.md section 3 C06",
    },
    "C09": {
        "technique": "model-based stateful PBT (rapid): required conditions of a successful replacement recomputed with the reference verifier/codec; field-preservation and empty-write-set oracles",
        "level": "Exploration: generated replacement attempts over nine classes of originals; 'succeeds only if' direction as stated.",
        "note": "Attestations of forged messages are produced on purpose here (A3 lifted) to probe the other conditions.",
        "ref": "DESIGN.md section 3 C09",
    },
    "C02": {
        "technique": "model-based stateful PBT (rapid) on the real BaseApp pipeline: model set of used (domain, nonce) pairs vs per-pair query, list query and export after every transaction; replay generator varies everything but the nonce; one deterministic listing walk over 1207 used pairs with page sizes up to 'everything'",
        "level": "Exploration: generated histories with adversarial replays on the real SDK pipeline against a set model; key injectivity probed through neighbour pairs, not proved.",
        "note": "Trusts cosmos-sdk rollback, the reference codec/verifier; 2^96 pairs are sampled.",
        "ref": "DESIGN.md section 3 C02",
    },
    "C03": {
        "technique": "property-based testing (rapid) of receive attempts with generated condition-falsification subsets against an independent recomputation of the acceptance-condition conjunction (reference codec + reference attestation verifier + model ledger)",
        "level": "Exploration: both directions of 'exactly when' on generated condition subsets and configurations, with state/ledger unchanged on failure.",
        "note": "D2: callers with non-zero high bytes naming the submitter are generated but not judged; mint success is judged by the model ledger.",
        "ref": "DESIGN.md section 3 C03",
    },
    "C08": {
        "technique": "property-based testing (rapid) of deposits with generated precondition-falsification and boundary amounts against the reference model's conjunction, in both ledger denom-case modes and with injected dependency faults",
        "level": "Exploration: both directions of 'exactly when' incl. amount=limit / limit+1 and body 132=max / 131 boundaries on generated configurations.",
        "note": "Minting denoms with upper-case letters and case-variant limits are generated (A4 lifted); dependency behaviour is the model ledger's.",
        "ref": "DESIGN.md section 3 C08",
    },
    "C07": {
        "technique": "model-based stateful property-based testing (rapid) on the real BaseApp pipeline: model counter vs decoded MessageSent nonces, responses and the query after every transaction",
        "level": "Exploration: generated transaction histories on the real SDK pipeline, every step compared with an independent counter model; search, not proof.",
        "note": "Trusts cosmos-sdk rollback, the reference codec and the model ledger; counters may wrap 2^64 within a history (D4 lifted).",
        "ref": "DESIGN.md section 3 C07",
    },
}

# ---- what the rules above do not yet say (features added while strengthening, DESIGN.md 9.6-9.6f) ----
_PROBES = (" History generators also draw, with small per-step probabilities: rollback probes (a state change and a failing message in one transaction, "
           "then transactions that use that piece of state), attester-change probes (enable/use/disable/use; one key under two spellings, one disabled, a third spelling tried), "
           "double receives in one transaction, restarts (genesis export -> import; optional scalars equal to their defaults may be omitted) followed by re-submission of the most recently "
           "accepted messages, re-registration of a token messenger before a replacement; genesis states may omit optional fields, hold a registry of >100 entries, case-variant burn limits, "
           "odd attester entries or no attester, Noble's own domain id as a remote domain, counters next to 2^31/2^32/2^63/2^64.")
for _k in ("C02", "C03", "C04", "C05", "C06", "C07", "C08", "C09", "C10", "C11", "C12", "C13", "C15", "C17", "C19"):
    CONF[_k]["rule"] += _PROBES
CONF["C01"]["rule"] += (" Directed prelude: quorums of 16, 17, 24, 32 and 33 signatures with an adjacent duplicate (same bytes / high-s twin), an adjacent swap at every position and an unknown signer at "
                        "batch boundaries; keys algebraically related to enabled ones (negation, endomorphism multiples) as unknown signers. L2 also through replace-deposit-for-burn.")
CONF["C14"]["rule"] += " Every fault plan is run twice: the failing call returns an error, resp. panics with the store's out-of-gas error."
CONF["C17"]["rule"] += " In 1/15 of the genesis cases one list has 101..125 entries (more than a default query page)."
CONF["C18"]["rule"] += (" The second process also replays each history alone in a fresh process (against the parent, which has executed everything), from initial height 30000001 with other block "
                        "times and proposer (store root aside), and - directed histories with 16..256 required signatures, an adjacent duplicate at every position for the small ones - "
                        "1.1 s later on one processor shared with 24 busy goroutines; a metamorphic replay without the failed multi-message transactions, replays with every transaction limited to exactly the gas it used (and +20000), the first transaction of every block in simulate mode, and a variant under other attester keys must agree as well.")
CONF["C19"]["rule"] += " A registry is sometimes drained entry by entry; short hex spellings are asked right after an unrelated full-width token."
CONF["C20"]["rule"] += (" Deterministic sweeps: one valid request of each of the 25 message types with every variable-length field resized to every length 0..72 (and 100..300), every account string replaced "
                        "by well-formed bech32 of 0..256 payload bytes (L1, a subset through L2); hex/denom arguments of the single-item queries at every length 0..140 with and without 0x/0X; "
                        "11 multi-byte/invalid sequences at every position 0..40 of two base58 strings for the CLI parser.")
CONF["C16"]["rule"] += " Decodes are repeated into a value that already decoded another message; earlier encoder outputs are retained and must not change."

_NOT_YET = "" or "check not built yet in this round (planned in DESIGN.md section 3); not claimed until it runs"
NOT_APPLICABLE = [{"property_id": p, "reason": _NOT_YET} for p in ALL if p not in CONF]
