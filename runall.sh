#!/bin/bash
# usage: runall.sh <tier> <seed...>   — runs every claimed check, prints one line per check
tier=$1; shift
cd "$(dirname "$0")"
for s in "$@"; do
  for p in $(python3 -c "import json;print(' '.join(c['property_id'] for c in json.load(open('MANIFEST.json'))['checks']))"); do
    t0=$(date +%s)
    out=$(VERIF_SEED=$s ./check $p $tier 2>&1); rc=$?
    echo "seed=$s $p rc=$rc $(( $(date +%s) - t0 ))s $(echo "$out" | grep -E '^(OK|VIOLATION|INCONCLUSIVE)' | head -2 | tr '\n' ' ')"
    if [ $rc -ne 0 ]; then echo "$out" | tail -15; fi
  done
done
