# Calibration mutants: (name, property, file, old, new [, count]).  Each is applied to a scratch
# copy of the repository; the owning property's quick check must then exit 1.
K = "x/cctp/keeper/"
T = "x/cctp/types/"
MUTANTS = [
    ("c07-replace-fresh-nonce", "C07", K + "msg_server_replace_message.go",
     "\t\toriginalMessage.Nonce,\n", "\t\tk.ReserveAndIncrementNonce(ctx).Nonce,\n"),
    ("c02-mark-only-module", "C02", K + "msg_server_receive_message.go",
     "\tk.SetUsedNonce(ctx, usedNonce)\n\n\t// verify and parse BurnMessage\n\tif bytes.Equal(message.Recipient, types.PaddedModuleAddress) { // then mint\n",
     "\t// verify and parse BurnMessage\n\tif bytes.Equal(message.Recipient, types.PaddedModuleAddress) { // then mint\n\t\tk.SetUsedNonce(ctx, usedNonce)\n"),
    ("c03-caller-only-module", "C03", K + "msg_server_receive_message.go",
     "if !bytes.Equal(message.DestinationCaller, zeroByteArray) {",
     "if !bytes.Equal(message.DestinationCaller, zeroByteArray) && bytes.Equal(message.Recipient, types.PaddedModuleAddress) {"),
    ("c03-pause-ignored-long", "C03", K + "msg_server_receive_message.go",
     "if found && sendingReceivingPaused.Paused {", "if found && sendingReceivingPaused.Paused && len(msg.Message) < 300 {"),
    ("c08-gt-gte", "C08", K + "msg_server_deposit_for_burn.go", "amount.GT(perMessageBurnLimit.Amount)", "amount.GTE(perMessageBurnLimit.Amount)"),
    ("c08-body-ge", "C08", K + "msg_server_send_message.go", "uint64(len(messageBody)) > max.Amount", "uint64(len(messageBody)) >= max.Amount"),
    ("c08-limit-unlowered", "C08", K + "msg_server_deposit_for_burn.go", "k.GetPerMessageBurnLimit(ctx, strings.ToLower(burnToken))", "k.GetPerMessageBurnLimit(ctx, burnToken)"),
]
