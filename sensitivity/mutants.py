# Calibration mutants: (name, property, file, old, new [, count]).  Each is applied to a scratch
# copy of the repository; the owning property's quick check must then exit 1.
K = "x/cctp/keeper/"
T = "x/cctp/types/"
MUTANTS = [
    ("c07-replace-fresh-nonce", "C07", K + "msg_server_replace_message.go",
     "\t\toriginalMessage.Nonce,\n", "\t\tk.ReserveAndIncrementNonce(ctx).Nonce,\n"),
    ("c02-mark-only-module", "C02", K + "msg_server_receive_message.go",
     "\tk.SetUsedNonce(ctx, usedNonce)\n\n\t// verify and parse BurnMessage\n\tif bytes.Equal(message.Recipient, types.PaddedModuleAddress) { // then mint\n",
     "\t// verify and parse BurnMessage\n\tif bytes.Equal(message.Recipient, types.PaddedModuleAddress) { // then mint\n\t\tk.SetUsedNonce(ctx, usedNonce)\n"),
    ("c03-caller-only-module", "C03", K + "msg_server_receive_message.go",
     "if !bytes.Equal(message.DestinationCaller, zeroByteArray) {",
     "if !bytes.Equal(message.DestinationCaller, zeroByteArray) && bytes.Equal(message.Recipient, types.PaddedModuleAddress) {"),
    ("c03-pause-ignored-long", "C03", K + "msg_server_receive_message.go",
     "if found && sendingReceivingPaused.Paused {", "if found && sendingReceivingPaused.Paused && len(msg.Message) < 300 {"),
    ("c08-gt-gte", "C08", K + "msg_server_deposit_for_burn.go", "amount.GT(perMessageBurnLimit.Amount)", "amount.GTE(perMessageBurnLimit.Amount)"),
    ("c08-body-ge", "C08", K + "msg_server_send_message.go", "uint64(len(messageBody)) > max.Amount", "uint64(len(messageBody)) >= max.Amount"),
    ("c08-limit-unlowered", "C08", K + "msg_server_deposit_for_burn.go", "k.GetPerMessageBurnLimit(ctx, strings.ToLower(burnToken))", "k.GetPerMessageBurnLimit(ctx, burnToken)"),
    ("c04-mint-to-sender", "C04", K + "msg_server_receive_message.go", "sdk.Bech32ifyAddressBytes(bech32Prefix, burnMessage.MintRecipient[12:])", "sdk.Bech32ifyAddressBytes(bech32Prefix, message.Sender[12:])"),
    ("c04-recipient-first-20", "C04", K + "msg_server_receive_message.go", "sdk.Bech32ifyAddressBytes(bech32Prefix, burnMessage.MintRecipient[12:])", "sdk.Bech32ifyAddressBytes(bech32Prefix, burnMessage.MintRecipient[:20])"),
    ("c04-amount-low-64", "C04", K + "msg_server_receive_message.go", "Amount: math.NewIntFromBigInt(burnMessage.Amount.BigInt()),", "Amount: math.NewIntFromUint64(burnMessage.Amount.BigInt().Uint64()),"),
    ("c04-denom-unlowered", "C04", K + "msg_server_receive_message.go", "Denom:  strings.ToLower(tokenPair.LocalToken),", "Denom:  tokenPair.LocalToken,"),
    ("c04-event-wrong-nonce", "C04", K + "msg_server_receive_message.go", "Nonce:        message.Nonce,", "Nonce:        message.Nonce + 1,"),
    ("c05-debit-module", "C05", K + "msg_server_deposit_for_burn.go", "k.bank.SendCoinsFromAccountToModule(ctx, fromAccAddress,", "k.bank.SendCoinsFromAccountToModule(ctx, sdk.AccAddress(types.ModuleAddress),"),
    ("c05-burn-one-unit", "C05", K + "msg_server_deposit_for_burn.go", "\t\tAmount: coin,\n", "\t\tAmount: sdk.NewCoin(burnToken, math.NewInt(1)),\n"),
    ("c05-message-amount-plus-1", "C05", K + "msg_server_deposit_for_burn.go", "\t\tAmount:        amount,\n", "\t\tAmount:        amount.AddRaw(1),\n"),
    ("c06-drop-caller", "C06", K + "msg_server_send_message_with_caller.go", "\t\tmsg.DestinationCaller,\n\t\tmessageSender,", "\t\tmake([]byte, types.DestinationCallerLen),\n\t\tmessageSender,"),
    ("c06-depositor-shifted", "C06", K + "msg_server_deposit_for_burn.go", "copy(messageSender[12:], fromAccAddress)", "copy(messageSender[11:], fromAccAddress)"),
    ("c06-event-nonce-plus-1", "C06", K + "msg_server_deposit_for_burn.go", "Nonce:                     nonce.Nonce,", "Nonce:                     nonce.Nonce + 1,"),
    ("c06-revert-fix-rehash", "C06", K + "msg_server_replace_deposit_for_burn.go", "hex.EncodeToString(burnMessage.BurnToken)", "hex.EncodeToString(append([]byte{1}, burnMessage.BurnToken[1:]...))"),
    ("c09-amount-plus-1", "C09", K + "msg_server_replace_deposit_for_burn.go", "\t\tAmount:        burnMessage.Amount,\n", "\t\tAmount:        burnMessage.Amount.AddRaw(1),\n"),
    ("c09-token-substituted", "C09", K + "msg_server_replace_deposit_for_burn.go", "\t\tBurnToken:     burnMessage.BurnToken,\n", "\t\tBurnToken:     burnMessage.MintRecipient,\n"),
    ("c09-fresh-nonce", "C09", K + "msg_server_replace_message.go", "\t\toriginalMessage.Nonce,\n", "\t\tk.ReserveAndIncrementNonce(ctx).Nonce,\n"),
]
