# Calibration mutants: (name, property, file, old, new [, count]).  Each is applied to a scratch
# copy of the repository; the owning property's quick check must then exit 1.
K = "x/cctp/keeper/"
T = "x/cctp/types/"
MUTANTS = [
    ("c07-replace-fresh-nonce", "C07", K + "msg_server_replace_message.go",
     "\t\toriginalMessage.Nonce,\n", "\t\tk.ReserveAndIncrementNonce(ctx).Nonce,\n"),
]
