#!/usr/bin/env python3
"""Sensitivity suite: apply each calibration mutant to a scratch copy of /repo and
run the owning property's quick check against it (must exit 1).

usage: run.py [name-substring ...] [--tier quick|thorough] [--jobs N]
"""
import os, shutil, subprocess, sys, tempfile, time, json
from concurrent.futures import ThreadPoolExecutor
HERE = os.path.dirname(os.path.abspath(__file__))
VERIF = os.path.dirname(HERE)
sys.path.insert(0, HERE)
from mutants import MUTANTS


def run_one(m, tier):
    name, prop, path = m[:3]
    old, new = (m[3], m[4]) if len(m) > 4 else (None, None)
    d = tempfile.mkdtemp(prefix="mut.%s." % name, dir="/tmp")
    try:
        subprocess.run(["rsync", "-a", "--exclude", ".git", "/repo/", d + "/"], check=True)
        edits = [(path, old, new)] if not isinstance(path, list) else path
        for (pth, o, n) in edits:
            fp = os.path.join(d, pth)
            src = open(fp).read()
            if src.count(o) < 1:
                return (name, prop, "PATCH-DOES-NOT-APPLY", 0, o)
            src = src.replace(o, n, 1)
            open(fp, "w").write(src)
        env = dict(os.environ, VERIF_REPO=d, VERIF_SEED=os.environ.get("VERIF_SEED", "1"))
        t0 = time.time()
        p = subprocess.run([os.path.join(VERIF, "check"), prop, tier], env=env, stdout=subprocess.PIPE, stderr=subprocess.STDOUT, text=True)
        dt = time.time() - t0
        verdict = {0: "SURVIVED", 1: "KILLED", 2: "INCONCLUSIVE"}.get(p.returncode, "rc=%d" % p.returncode)
        lines = [l for l in p.stdout.splitlines() if l.startswith("VIOLATION") or l.startswith("  {") or l.startswith("INCONCLUSIVE")]
        # remove the replay files written for mutants (they are not findings on the real tree)
        for l in p.stdout.splitlines():
            if l.startswith("VIOLATION") and "replay=" in l:
                rp = l.split("replay=")[1].strip()
                if os.path.exists(rp) and "/alt/replays/" in rp:
                    os.remove(rp)
        return (name, prop, verdict, dt, "\n".join(lines[:3]) if verdict == "KILLED" else p.stdout[-1500:])
    finally:
        shutil.rmtree(d, ignore_errors=True)
        # drop the mutant's binary
        import hashlib
        tag = hashlib.sha256(d.encode()).hexdigest()[:8]
        b = os.path.join(VERIF, ".build")
        for f in os.listdir(b):
            if f.startswith("props.%s." % tag) or f.startswith("go.%s." % tag):
                try:
                    os.remove(os.path.join(b, f))
                except OSError:
                    pass


def main():
    args = sys.argv[1:]
    tier, jobs, subs = "quick", 4, []
    i = 0
    while i < len(args):
        if args[i] == "--tier":
            tier = args[i + 1]; i += 1
        elif args[i] == "--jobs":
            jobs = int(args[i + 1]); i += 1
        else:
            subs.append(args[i])
        i += 1
    ms = [m for m in MUTANTS if not subs or any(s in m[0] or s == m[1] for s in subs)]
    with ThreadPoolExecutor(jobs) as ex:
        res = list(ex.map(lambda m: run_one(m, tier), ms))
    bad = 0
    for (name, prop, verdict, dt, info) in res:
        print("%-45s %s %-12s %5.1fs" % (name, prop, verdict, dt))
        if verdict != "KILLED":
            bad += 1
            print("    " + info.replace("\n", "\n    "))
        elif os.environ.get("V"):
            print("    " + info.replace("\n", "\n    "))
    print("%d/%d killed" % (len(res) - bad, len(res)))
    if not subs:
        with open(os.path.join(HERE, "RESULTS.md"), "w") as f:
            f.write("# Sensitivity suite: calibration mutants vs the owning property's %s check\n\n" % tier)
            f.write("Each mutant is applied to a scratch copy of /repo (it compiles and, for the mutants taken from the\nproperties' why_tests_cant fields, passes the 288 tests); the check must exit 1.\n\n")
            f.write("| mutant | property | verdict | seconds (incl. build) |\n|---|---|---|---|\n")
            for (name, prop, verdict, dt, info) in res:
                f.write("| %s | %s | %s | %.0f |\n" % (name, prop, verdict, dt))
            f.write("\n%d/%d killed\n" % (len(res) - bad, len(res)))
    return 1 if bad else 0


if __name__ == "__main__":
    sys.exit(main())
