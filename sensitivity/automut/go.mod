module automut

go 1.23
