// automut: a small mutation generator over Go sources (standard library only).
//
//	automut list <file.go>            prints one line per possible mutation: "<id> <line> <operator> <detail>"
//	automut apply <file.go> <id>      prints the mutated file to stdout
//
// Operators: negate an if condition; swap a comparison (== != < <= > >=) for its neighbour; && <-> ||;
// delete a statement (expression call, assignment, inc/dec) that is not a declaration; integer literal n -> n+1;
// return nil instead of a non-nil error in `return ..., err`-style early returns (error swallowed).
package main

import (
	"fmt"
	"go/ast"
	"go/parser"
	"go/printer"
	"go/token"
	"os"
	"strconv"
)

type mutation struct {
	line   int
	op     string
	detail string
	apply  func()
}

func collect(fset *token.FileSet, f *ast.File) []mutation {
	var ms []mutation
	add := func(pos token.Pos, op, detail string, fn func()) {
		ms = append(ms, mutation{fset.Position(pos).Line, op, detail, fn})
	}
	swaps := map[token.Token][]token.Token{
		token.EQL: {token.NEQ}, token.NEQ: {token.EQL},
		token.LSS: {token.LEQ, token.GEQ}, token.LEQ: {token.LSS, token.GTR},
		token.GTR: {token.GEQ, token.LEQ}, token.GEQ: {token.GTR, token.LSS},
		token.LAND: {token.LOR}, token.LOR: {token.LAND},
	}
	ast.Inspect(f, func(n ast.Node) bool {
		switch x := n.(type) {
		case *ast.IfStmt:
			x0 := x
			add(x.Pos(), "negate-if", "", func() { x0.Cond = &ast.UnaryExpr{Op: token.NOT, X: &ast.ParenExpr{X: x0.Cond}} })
		case *ast.BinaryExpr:
			x0 := x
			for _, to := range swaps[x.Op] {
				to := to
				from := x.Op
				add(x.Pos(), "swap-op", from.String()+"->"+to.String(), func() { x0.Op = to })
			}
		case *ast.BlockStmt:
			for i, st := range x.List {
				i, x0 := i, x
				switch s := st.(type) {
				case *ast.ExprStmt:
					if _, ok := s.X.(*ast.CallExpr); ok {
						add(st.Pos(), "delete-call", "", func() { x0.List[i] = &ast.EmptyStmt{} })
					}
				case *ast.AssignStmt:
					if s.Tok == token.ASSIGN || s.Tok == token.ADD_ASSIGN || s.Tok == token.SUB_ASSIGN {
						add(st.Pos(), "delete-assign", "", func() { x0.List[i] = &ast.EmptyStmt{} })
					}
				case *ast.IncDecStmt:
					add(st.Pos(), "delete-incdec", "", func() { x0.List[i] = &ast.EmptyStmt{} })
				case *ast.ReturnStmt:
					// return X, err  ->  return X, nil   (only when the last result is the identifier err)
					if n := len(s.Results); n >= 1 {
						if id, ok := s.Results[n-1].(*ast.Ident); ok && id.Name == "err" {
							s0 := s
							add(st.Pos(), "swallow-err", "", func() { s0.Results[len(s0.Results)-1] = ast.NewIdent("nil") })
						}
					}
				}
			}
		case *ast.BasicLit:
			if x.Kind == token.INT {
				if v, err := strconv.ParseInt(x.Value, 0, 64); err == nil && v < 1<<40 {
					x0 := x
					add(x.Pos(), "int+1", x.Value, func() { x0.Value = strconv.FormatInt(v+1, 10) })
				}
			}
		}
		return true
	})
	return ms
}

func main() {
	if len(os.Args) < 3 {
		fmt.Fprintln(os.Stderr, "usage: automut list|apply file [id]")
		os.Exit(2)
	}
	fset := token.NewFileSet()
	f, err := parser.ParseFile(fset, os.Args[2], nil, parser.ParseComments)
	if err != nil {
		fmt.Fprintln(os.Stderr, err)
		os.Exit(2)
	}
	ms := collect(fset, f)
	switch os.Args[1] {
	case "list":
		for i, m := range ms {
			fmt.Printf("%d %d %s %s\n", i, m.line, m.op, m.detail)
		}
	case "apply":
		id, _ := strconv.Atoi(os.Args[3])
		if id < 0 || id >= len(ms) {
			os.Exit(2)
		}
		ms[id].apply()
		if err := printer.Fprint(os.Stdout, fset, f); err != nil {
			os.Exit(2)
		}
	}
}
