#!/usr/bin/env python3
"""automut.py [--jobs N] [--limit K] [--only substr] : mechanical mutants of the module against the checks.

For every mutation that sensitivity/automut (negated conditions, swapped comparison / boolean operators, deleted
calls and assignments, integer literals + 1, swallowed errors) can make in the non-generated sources of x/cctp:
  1. scratch copy of /repo with the mutated file; `go build` and the repository's own tests must pass
     (mutants they kill are of no interest here: the properties are about what those tests cannot settle);
  2. for the survivors, the quick checks run against the copy (VERIF_REPO) in a fixed order until one exits 1.
Results are appended to sensitivity/AUTOMUT.jsonl (one JSON object per mutant); `--report` prints a summary.
"""
import concurrent.futures, glob, hashlib, json, os, re, shutil, subprocess, sys, tempfile, time

VERIF = os.path.dirname(os.path.dirname(os.path.abspath(__file__)))
BIN = os.path.join(VERIF, ".build", "automut")
OUT = os.path.join(VERIF, "sensitivity", "AUTOMUT.jsonl")
ORDER = ["C03", "C08", "C15", "C19", "C10", "C06", "C05", "C04", "C02", "C12", "C13", "C11", "C07", "C09", "C14", "C17", "C01", "C16", "C18", "C20"]
SKIP = re.compile(r"_test\.go$|\.pb\.go$|\.pb\.gw\.go$|pulsar|/simulation/|/testutil/|expected_keepers|/errors\.go$|/events|/codec\.go$|/client/cli/(tx|query)")


def sources():
    out = []
    for pat in ("x/cctp/*.go", "x/cctp/keeper/*.go", "x/cctp/types/*.go", "x/cctp/client/cli/util.go"):
        out += sorted(glob.glob(os.path.join("/repo", pat)))
    return [f for f in out if not SKIP.search(f)]


def mutations():
    ms = []
    for f in sources():
        p = subprocess.run([BIN, "list", f], stdout=subprocess.PIPE, text=True)
        for line in p.stdout.splitlines():
            parts = line.split(" ", 3)
            ms.append(dict(file=os.path.relpath(f, "/repo"), id=int(parts[0]), line=int(parts[1]), op=parts[2], detail=parts[3] if len(parts) > 3 else ""))
    return ms


def sh(cmd, cwd=None, env=None, timeout=1800):
    p = subprocess.run(cmd, cwd=cwd, env=env, stdout=subprocess.PIPE, stderr=subprocess.STDOUT, text=True, timeout=timeout)
    return p.returncode, p.stdout


def one(m):
    t0 = time.time()
    cp = tempfile.mkdtemp(prefix="am-", dir="/tmp")
    res = dict(m)
    try:
        subprocess.run("rsync -a --exclude .git /repo/ %s/" % cp, shell=True, check=True)
        p = subprocess.run([BIN, "apply", os.path.join("/repo", m["file"]), str(m["id"])], stdout=subprocess.PIPE)
        if p.returncode != 0:
            res["verdict"] = "apply-failed"
            return res
        open(os.path.join(cp, m["file"]), "wb").write(p.stdout)
        env = dict(os.environ, GOPROXY="off", GOFLAGS="")
        rc, out = sh(["go", "build", "./x/..."], cwd=cp, env=env)
        if rc != 0:
            res["verdict"] = "does-not-compile"
            return res
        rc, out = sh(["go", "test", "-vet=off", "-count=1", "./x/..."], cwd=cp, env=env)
        if rc != 0:
            res["verdict"] = "killed-by-repo-tests"
            return res
        res["verdict"] = "SURVIVED"
        for prop in ORDER:
            rc, out = sh([os.path.join(VERIF, "check"), prop, "quick"], env=dict(os.environ, VERIF_REPO=cp, VERIF_SEED="1"))
            if rc == 1:
                res["verdict"] = "caught"
                res["caught_by"] = prop
                res["what"] = next((l.strip()[:300] for l in out.splitlines() if l.startswith("  {")), "")
                break
            if rc != 0:
                res.setdefault("inconclusive", []).append(prop)
        return res
    except Exception as e:
        res["verdict"] = "error: %r" % (e,)
        return res
    finally:
        res["seconds"] = round(time.time() - t0, 1)
        shutil.rmtree(cp, ignore_errors=True)
        tag = hashlib.sha256(cp.encode()).hexdigest()[:8]
        b = os.path.join(VERIF, ".build")
        for f in os.listdir(b):
            if f.startswith("props.%s." % tag) or f.startswith("go.%s." % tag):
                try:
                    os.remove(os.path.join(b, f))
                except OSError:
                    pass


def report():
    rows = [json.loads(l) for l in open(OUT)]
    by = {}
    for r in rows:
        by.setdefault(r["verdict"].split(":")[0], []).append(r)
    print({k: len(v) for k, v in by.items()})
    for r in by.get("SURVIVED", []):
        print("SURVIVED", r["file"], r["line"], r["op"], r.get("detail", ""), r.get("inconclusive", ""))


def main():
    if "--report" in sys.argv:
        return report()
    jobs = int(sys.argv[sys.argv.index("--jobs") + 1]) if "--jobs" in sys.argv else 3
    limit = int(sys.argv[sys.argv.index("--limit") + 1]) if "--limit" in sys.argv else 0
    only = sys.argv[sys.argv.index("--only") + 1] if "--only" in sys.argv else ""
    done = set()
    if os.path.exists(OUT):
        for l in open(OUT):
            r = json.loads(l)
            done.add((r["file"], r["id"]))
    ms = [m for m in mutations() if (m["file"], m["id"]) not in done and only in m["file"] + m["op"]]
    # spread over files and operators: a fixed pseudo-random order
    ms.sort(key=lambda m: hashlib.sha256(("%s#%d" % (m["file"], m["id"])).encode()).hexdigest())
    if limit:
        ms = ms[:limit]
    print(len(ms), "mutants to run", flush=True)
    with concurrent.futures.ThreadPoolExecutor(max_workers=jobs) as ex:
        for r in ex.map(one, ms):
            with open(OUT, "a") as f:
                f.write(json.dumps(r) + "\n")
            print(r["verdict"], r.get("caught_by", ""), r["file"], r["line"], r["op"], r.get("detail", ""), r["seconds"], flush=True)


main()
